#!/usr/bin/env python3
"""Rewrite the generated parts of DESIGN.md: the table of §11 (from mutants/results.jsonl via
tools/mutant_table.py) and the tables of §12 (from seeded/*/meta.json via tools/seeded_table.py)."""
import os, re, subprocess, sys
ROOT = os.path.dirname(os.path.dirname(os.path.abspath(__file__)))
p = os.path.join(ROOT, "DESIGN.md")
s = open(p).read()
def run(*a):
    return subprocess.run([sys.executable, *a], capture_output=True, text=True, cwd=ROOT).stdout.strip()
mt = run("tools/mutant_table.py")
st = run("tools/seeded_table.py")
rt = run("tools/seeded_table.py", "--rounds")
# §11: from the table header to the "N of M caught." line
a = s.index("| id | property | deliberate change | caught (quick) | oracle classes |")
b = s.index("## 12. Independently seeded changes")
m = re.search(r"(\d+) of (\d+) caught", mt)
s = s[:a] + mt + "\n\n\n" + s[b:]
s = re.sub(r"\*\*\d+ of \d+\s+caught\*\*", f"**{m.group(1)} of {m.group(2)} caught**", s, count=1)
# §12: from the per-change table header to Appendix A
a = s.index("| id | property | change (first line of its README) | caught by `./check <property> quick` |")
b = s.index("## Appendix A")
tail = open(os.path.join(ROOT, "tools", "design_12_tail.md")).read() if os.path.exists(os.path.join(ROOT, "tools", "design_12_tail.md")) else ""
s = s[:a] + st + "\n\nPer round:\n\n" + rt + "\n\n" + tail + "\n" + s[b:]
open(p, "w").write(s)
print("DESIGN.md tables rewritten")
