//! S-tear: aligned 1/2/4/8-byte guest accesses are never torn (C06).
//! A writer flipping a value races with a reader; the scheduler may switch between the primitive
//! memory accesses of one transfer (and between the bytes of a bulk copy).

use super::{RunInfo, Scenario};
use crate::json::J;
use crate::sim::{catch, cx, fmt_ev, in_mode, run_concurrent, yield_point, EvKind, Mode, OpOutcome, Policy};
use crate::world::{mk, raw_read, raw_write, Arena, LocalBuf};
use std::cell::RefCell;
use std::fmt::Debug;
use std::io::Cursor;
use std::sync::atomic::Ordering;
use vm_memory::{Bytes, GuestAddress, GuestMemory, GuestMemoryMmap, GuestMemoryRegion, GuestRegionMmap, MemoryRegionAddress, ReadVolatile, VolatileMemory, VolatileSlice, WriteVolatile};

const WIN: usize = 64;
const GBASE: u64 = 0x10_0000;

#[derive(Clone, Copy, Debug, PartialEq, Eq)]
enum Layer {
    Slice,
    Region,
    Gm,
}

struct World {
    layer: Layer,
    arena: Option<Arena>,
    gm: Option<GuestMemoryMmap<()>>,
    /// host address of the 64-byte window
    win: *mut u8,
    /// range id the window lives in and the window's offset in that range
    rid: u32,
    rbase: usize,
    /// slice layer: the slice handed to the entry points starts this many bytes before the window
    /// (so that the offsets passed in are large and may straddle multiples of the page size)
    back: usize,
}

impl World {
    fn vs(&self) -> VolatileSlice<'static, ()> {
        match self.layer {
            // SAFETY: the arena outlives the run.
            Layer::Slice => unsafe { VolatileSlice::new(self.win.sub(self.back), self.back + WIN) },
            Layer::Region => {
                let r = self.gm.as_ref().unwrap().find_region(GuestAddress(GBASE)).unwrap();
                // SAFETY: the region outlives every use in this run.
                unsafe { std::mem::transmute::<VolatileSlice<'_, ()>, VolatileSlice<'static, ()>>(r.get_slice(MemoryRegionAddress(0), WIN).unwrap()) }
            }
            Layer::Gm => {
                let g = self.gm.as_ref().unwrap();
                // SAFETY: as above.
                unsafe { std::mem::transmute::<VolatileSlice<'_, ()>, VolatileSlice<'static, ()>>(g.get_slice(GuestAddress(GBASE), WIN).unwrap()) }
            }
        }
    }
    fn region(&self) -> &GuestRegionMmap<()> {
        self.gm.as_ref().unwrap().find_region(GuestAddress(GBASE)).unwrap()
    }
}

pub const W_ENTRIES: [&str; 12] = ["write", "write_slice", "write_obj", "copy_from<u8>", "array.copy_from<u8>", "&[u8].read_volatile", "read_volatile_from(&[u8])", "read_exact_volatile_from(&[u8])", "store(atomic)", "ref.store", "Cursor.read_volatile", "vcpu-write"];
pub const R_ENTRIES: [&str; 12] = ["read", "read_slice", "read_obj", "copy_to<u8>", "array.copy_to<u8>", "&mut[u8].write_volatile", "write_volatile_to(Vec)", "write_all_volatile_to(Vec)", "load(atomic)", "ref.load", "Cursor<&mut[u8]>.write_volatile", "vcpu-read"];

const R_COUNTERS: [&str; 12] = ["reader.read", "reader.read_slice", "reader.read_obj", "reader.copy_to<u8>", "reader.array.copy_to<u8>", "reader.&mut[u8].write_volatile", "reader.write_volatile_to(Vec)", "reader.write_all_volatile_to(Vec)", "reader.load(atomic)", "reader.ref.load", "reader.Cursor<&mut[u8]>.write_volatile", "reader.vcpu-read"];

fn es<E: Debug>(e: E) -> String {
    format!("{:?}", e)
}

fn pow2(n: usize) -> bool {
    matches!(n, 1 | 2 | 4 | 8)
}

/// Writer entry points that go through the `Bytes` interface of any layer.
fn bytes_write<A: Copy, B: Bytes<A>>(b: &B, at: A, entry: usize, val: &[u8], buf: &LocalBuf) -> Result<(), String>
where
    B::E: Debug,
{
    let n = val.len();
    match entry {
        0 => b.write(buf.as_ref(), at).map_err(es).and_then(|k| if k == n { Ok(()) } else { Err(format!("short write {}", k)) }),
        1 => b.write_slice(buf.as_ref(), at).map_err(es),
        2 => match n {
            1 => b.write_obj(mk::<u8>(val), at).map_err(es),
            2 => b.write_obj(mk::<u16>(val), at).map_err(es),
            4 => b.write_obj(mk::<u32>(val), at).map_err(es),
            8 => b.write_obj(mk::<u64>(val), at).map_err(es),
            3 => b.write_obj(mk::<[u8; 3]>(val), at).map_err(es),
            5 => b.write_obj(mk::<[u8; 5]>(val), at).map_err(es),
            6 => b.write_obj(mk::<[u8; 6]>(val), at).map_err(es),
            _ => b.write_obj(mk::<[u8; 7]>(val), at).map_err(es),
        },
        6 => {
            let mut s = buf.as_ref();
            b.read_volatile_from(at, &mut s, n).map_err(es).and_then(|k| if k == n { Ok(()) } else { Err(format!("short transfer {}", k)) })
        }
        7 => {
            let mut s = buf.as_ref();
            b.read_exact_volatile_from(at, &mut s, n).map_err(es)
        }
        8 => match n {
            1 => b.store(mk::<u8>(val), at, Ordering::SeqCst).map_err(es),
            2 => b.store(mk::<u16>(val), at, Ordering::Release).map_err(es),
            4 => b.store(mk::<u32>(val), at, Ordering::SeqCst).map_err(es),
            _ => b.store(mk::<u64>(val), at, Ordering::Relaxed).map_err(es),
        },
        _ => unreachable!(),
    }
}

fn bytes_read<A: Copy, B: Bytes<A>>(b: &B, at: A, entry: usize, n: usize, buf: &mut LocalBuf, presink: usize, spare: usize) -> Result<Vec<u8>, String>
where
    B::E: Debug,
{
    use crate::world::bytes_of;
    match entry {
        0 => b.read(buf.as_mut(), at).map_err(es).and_then(|k| if k == n { Ok(buf.as_ref().to_vec()) } else { Err(format!("short read {}", k)) }),
        1 => b.read_slice(buf.as_mut(), at).map_err(es).map(|()| buf.as_ref().to_vec()),
        2 => match n {
            1 => b.read_obj::<u8>(at).map(|v| bytes_of(&v)).map_err(es),
            2 => b.read_obj::<u16>(at).map(|v| bytes_of(&v)).map_err(es),
            4 => b.read_obj::<u32>(at).map(|v| bytes_of(&v)).map_err(es),
            8 => b.read_obj::<u64>(at).map(|v| bytes_of(&v)).map_err(es),
            3 => b.read_obj::<[u8; 3]>(at).map(|v| bytes_of(&v)).map_err(es),
            5 => b.read_obj::<[u8; 5]>(at).map(|v| bytes_of(&v)).map_err(es),
            6 => b.read_obj::<[u8; 6]>(at).map(|v| bytes_of(&v)).map_err(es),
            _ => b.read_obj::<[u8; 7]>(at).map(|v| bytes_of(&v)).map_err(es),
        },
        6 | 7 => {
            // the sink may have less room than the transfer needs (it then has to grow)
            let mut sink: Vec<u8> = Vec::with_capacity(presink + spare);
            sink.resize(presink, 0x5A);
            let r = if entry == 6 { b.write_volatile_to(at, &mut sink, n).map_err(es).and_then(|k| if k == n { Ok(()) } else { Err(format!("short transfer {}", k)) }) } else { b.write_all_volatile_to(at, &mut sink, n).map_err(es) };
            r.map(|()| sink[presink..].to_vec())
        }
        8 => match n {
            1 => b.load::<u8>(at, Ordering::SeqCst).map(|v| bytes_of(&v)).map_err(es),
            2 => b.load::<u16>(at, Ordering::Acquire).map(|v| bytes_of(&v)).map_err(es),
            4 => b.load::<u32>(at, Ordering::SeqCst).map(|v| bytes_of(&v)).map_err(es),
            _ => b.load::<u64>(at, Ordering::Relaxed).map(|v| bytes_of(&v)).map_err(es),
        },
        _ => unreachable!(),
    }
}

#[derive(Clone, Debug)]
struct Side {
    entry: usize,
    /// residue of the local buffer modulo 8 (buffer forms)
    la: usize,
    /// bytes already in the Vec sink (reader forms 6/7)
    presink: usize,
    nops: usize,
    /// host address of a local buffer that touches the guest target (its end or its start)
    adj: Option<usize>,
    /// spare capacity of the Vec sink beyond its prefix (reader forms 6/7)
    spare: usize,
}

#[derive(Clone, Debug, Default)]
struct OpRec {
    start: usize,
    end: usize,
    res: Option<Result<Vec<u8>, String>>,
    panic: Option<String>,
    local_aligned: bool,
}

fn local_aligned_for(entry: usize, la: usize, presink: usize, n: usize, writer: bool) -> bool {
    match entry {
        // object, atomic, typed-ref and vCPU forms use naturally aligned locals
        2 | 8 | 9 | 11 => true,
        6 | 7 if !writer => presink % n == 0, // Vec storage is at least 8-aligned
        _ => la % n == 0,
    }
}

fn do_write(w: &World, goff: usize, s: &Side, val: &[u8]) -> Result<(), String> {
    let n = val.len();
    // offset of the target inside the slice handed to the slice-layer entry points
    let so = goff + w.back;
    // SAFETY: an adjacent buffer lies in the arena's data pages next to the window.
    let buf = match s.adj {
        Some(a) => unsafe { LocalBuf::at(a, n, |i| val[i]) },
        None => LocalBuf::new(n, s.la, |i| val[i]),
    };
    match s.entry {
        0 | 1 | 2 | 6 | 7 | 8 => match w.layer {
            Layer::Slice => bytes_write(&w.vs(), so, s.entry, val, &buf),
            Layer::Region => bytes_write(w.region(), MemoryRegionAddress(goff as u64), s.entry, val, &buf),
            Layer::Gm => bytes_write(w.gm.as_ref().unwrap(), GuestAddress(GBASE + goff as u64), s.entry, val, &buf),
        },
        3 => {
            w.vs().subslice(so, n).map_err(es)?.copy_from(buf.as_ref());
            Ok(())
        }
        4 => {
            // (the array may be longer than the buffer: only the buffer's length is copied)
            let room = w.vs().len().saturating_sub(so);
            let alen = if cx().b(2) == 0 { n } else { room.min(n + 1 + cx().b(24) as usize) };
            w.vs().get_array_ref::<u8>(so, alen).map_err(es)?.copy_from(buf.as_ref());
            Ok(())
        }
        5 => {
            let mut t = w.vs().subslice(so, n).map_err(es)?;
            let mut src = buf.as_ref();
            src.read_volatile(&mut t).map_err(es).and_then(|k| if k == n { Ok(()) } else { Err(format!("short {}", k)) })
        }
        9 => {
            let v = w.vs();
            match n {
                1 => v.get_ref::<u8>(so).map_err(es)?.store(mk::<u8>(val)),
                2 => v.get_ref::<u16>(so).map_err(es)?.store(mk::<u16>(val)),
                4 => v.get_ref::<u32>(so).map_err(es)?.store(mk::<u32>(val)),
                _ => v.get_ref::<u64>(so).map_err(es)?.store(mk::<u64>(val)),
            }
            Ok(())
        }
        10 => {
            let mut t = w.vs().subslice(so, n).map_err(es)?;
            // the cursor starts inside a larger stream; the payload sits at the buffer's alignment
            let mut c = Cursor::new(buf.as_ref());
            c.read_volatile(&mut t).map_err(es).and_then(|k| if k == n { Ok(()) } else { Err(format!("short {}", k)) })
        }
        _ => {
            // simulated vCPU: one raw aligned access at a scheduling point
            yield_point();
            let p = unsafe { w.win.add(goff) };
            cx().ev(EvKind::Note, 1, goff as u64, n as u64);
            // SAFETY: inside the window; alignment is guaranteed by the generator for this entry.
            unsafe {
                match n {
                    1 => (p as *mut u8).write_volatile(mk::<u8>(val)),
                    2 => (p as *mut u16).write_volatile(mk::<u16>(val)),
                    4 => (p as *mut u32).write_volatile(mk::<u32>(val)),
                    _ => (p as *mut u64).write_volatile(mk::<u64>(val)),
                }
            }
            Ok(())
        }
    }
}

fn do_read(w: &World, goff: usize, s: &Side, n: usize) -> Result<Vec<u8>, String> {
    use crate::world::bytes_of;
    let so = goff + w.back;
    // SAFETY: as in do_write.
    let mut buf = match s.adj {
        Some(a) => unsafe { LocalBuf::at(a, n, |_| 0xEE) },
        None => LocalBuf::new(n, s.la, |_| 0xEE),
    };
    match s.entry {
        0 | 1 | 2 | 6 | 7 | 8 => match w.layer {
            Layer::Slice => bytes_read(&w.vs(), so, s.entry, n, &mut buf, s.presink, s.spare),
            Layer::Region => bytes_read(w.region(), MemoryRegionAddress(goff as u64), s.entry, n, &mut buf, s.presink, s.spare),
            Layer::Gm => bytes_read(w.gm.as_ref().unwrap(), GuestAddress(GBASE + goff as u64), s.entry, n, &mut buf, s.presink, s.spare),
        },
        3 => {
            let k = w.vs().subslice(so, n).map_err(es)?.copy_to(buf.as_mut());
            if k == n {
                Ok(buf.as_ref().to_vec())
            } else {
                Err(format!("short {}", k))
            }
        }
        4 => {
            let room = w.vs().len().saturating_sub(so);
            let alen = if cx().b(2) == 0 { n } else { room.min(n + 1 + cx().b(24) as usize) };
            let k = w.vs().get_array_ref::<u8>(so, alen).map_err(es)?.copy_to(buf.as_mut());
            if k == n {
                Ok(buf.as_ref().to_vec())
            } else {
                Err(format!("short {}", k))
            }
        }
        5 => {
            let t = w.vs().subslice(so, n).map_err(es)?;
            let mut dst = buf.as_mut();
            dst.write_volatile(&t).map_err(es)?;
            Ok(buf.as_ref().to_vec())
        }
        9 => {
            let v = w.vs();
            Ok(match n {
                1 => bytes_of(&v.get_ref::<u8>(so).map_err(es)?.load()),
                2 => bytes_of(&v.get_ref::<u16>(so).map_err(es)?.load()),
                4 => bytes_of(&v.get_ref::<u32>(so).map_err(es)?.load()),
                _ => bytes_of(&v.get_ref::<u64>(so).map_err(es)?.load()),
            })
        }
        10 => {
            let t = w.vs().subslice(so, n).map_err(es)?;
            let mut c = Cursor::new(buf.as_mut());
            c.write_volatile(&t).map_err(es)?;
            Ok(buf.as_ref().to_vec())
        }
        _ => {
            yield_point();
            let p = unsafe { w.win.add(goff) };
            cx().ev(EvKind::Note, 2, goff as u64, n as u64);
            // SAFETY: as in do_write.
            Ok(unsafe {
                match n {
                    1 => bytes_of(&(p as *const u8).read_volatile()),
                    2 => bytes_of(&(p as *const u16).read_volatile()),
                    4 => bytes_of(&(p as *const u32).read_volatile()),
                    _ => bytes_of(&(p as *const u64).read_volatile()),
                }
            })
        }
    }
}

// ---- "with the requested ordering": a recording atomic plugged into the crate's own extension point
thread_local! {
    static SEEN_ORDER: std::cell::Cell<Option<Ordering>> = const { std::cell::Cell::new(None) };
}

#[repr(transparent)]
pub struct RecAtomic32(std::sync::atomic::AtomicU32);

// SAFETY: a transparent wrapper around AtomicU32.
unsafe impl vm_memory::AtomicInteger for RecAtomic32 {
    type V = u32;
    fn new(v: u32) -> Self {
        RecAtomic32(std::sync::atomic::AtomicU32::new(v))
    }
    fn load(&self, order: Ordering) -> u32 {
        SEEN_ORDER.with(|s| s.set(Some(order)));
        self.0.load(order)
    }
    fn store(&self, val: u32, order: Ordering) {
        SEEN_ORDER.with(|s| s.set(Some(order)));
        self.0.store(val, order)
    }
}

#[derive(Clone, Copy)]
#[repr(transparent)]
pub struct Rec32(u32);
// SAFETY: plain data.
unsafe impl vm_memory::ByteValued for Rec32 {}
impl From<u32> for Rec32 {
    fn from(v: u32) -> Self {
        Rec32(v)
    }
}
impl From<Rec32> for u32 {
    fn from(v: Rec32) -> u32 {
        v.0
    }
}
impl vm_memory::AtomicAccess for Rec32 {
    type A = RecAtomic32;
}

/// store / load through `b` with every ordering valid for the operation; the ordering that reaches
/// the atomic must be the requested one
fn ordering_probe<A: Copy, B: Bytes<A>>(b: &B, at: A, layer: &str)
where
    B::E: Debug,
{
    for (store, order) in [(true, Ordering::Relaxed), (true, Ordering::Release), (true, Ordering::SeqCst), (false, Ordering::Relaxed), (false, Ordering::Acquire), (false, Ordering::SeqCst)] {
        SEEN_ORDER.with(|s| s.set(None));
        let r = catch(|| if store { b.store(Rec32(0x0102_0304), at, order).map_err(es) } else { b.load::<Rec32>(at, order).map(|_| ()).map_err(es) });
        let seen = SEEN_ORDER.with(|s| s.get());
        match r {
            OpOutcome::Ok(Ok(())) if seen == Some(order) => cx().count("probe.atomic_ordering_passed_through"),
            OpOutcome::Ok(Ok(())) => cx().violate("C06", "C06/ordering", format!("{} ordering at {} level", if store { "store" } else { "load" }, layer), format!("{}({:?}) at {} level performed the atomic access with {:?}", if store { "store" } else { "load" }, order, layer, seen)),
            other => cx().violate("C06", "C06/error", format!("atomic {} failed at {} level", if store { "store" } else { "load" }, layer), format!("aligned atomic access failed: {:?}", match other { OpOutcome::Ok(Err(e)) => e, OpOutcome::Panic(m) => m, _ => "simulator abort".into() })),
        }
    }
}


/// Atomic accesses around the seam of two touching regions: an object that does not lie inside
/// the region of its first byte cannot be one access and must be refused, leaving memory alone;
/// one that fits and is aligned is exactly one reference of its width.
fn seam_probe() {
    let c = cx();
    let s1 = [4096usize, 4100, 4092, 4098, 8][c.a(5) as usize];
    let base = 0x20_0000u64;
    let gm = in_mode(Mode::Setup, || GuestMemoryMmap::<()>::from_ranges(&[(GuestAddress(base), s1), (GuestAddress(base + s1 as u64), 4096)]).expect("guest memory"));
    let h1 = gm.get_host_address(GuestAddress(base)).unwrap() as usize;
    let h2 = gm.get_host_address(GuestAddress(base + s1 as u64)).unwrap() as usize;
    cx().add_range(h1, s1.div_ceil(4096) * 4096, 5, true);
    cx().add_range(h2, 4096, 6, true);
    let fill: Vec<u8> = (0..16).map(|i| 0xC0 + i as u8).collect();
    for _ in 0..3 {
        let width = [2usize, 4, 8][cx().a(3) as usize];
        // offset relative to the seam: the object starts `back` bytes before it
        let back = cx().a(width as u32 + 2) as usize;
        if back > s1 {
            continue;
        }
        let addr = base + (s1 - back) as u64;
        let store = cx().a(2) == 0;
        in_mode(Mode::Setup, || {
            raw_write((h1 + s1 - back.min(8).min(s1)) as *mut u8, &fill[..back.min(8).min(s1)]);
            raw_write(h2 as *mut u8, &fill[8..16]);
        });
        let before: Vec<u8> = raw_read((h1 + s1 - back.min(8).min(s1)) as *mut u8, back.min(8).min(s1)).into_iter().chain(raw_read(h2 as *mut u8, 8)).collect();
        let host = if back == 0 { h2 } else { h1 + s1 - back };
        let fits = back == 0 || back >= width;
        let aligned = host % width == 0;
        let ev0 = cx().events.len();
        cx().mode = Mode::Actor;
        let r = catch(|| match (store, width) {
            (true, 2) => gm.store(0x1122u16, GuestAddress(addr), Ordering::SeqCst).map_err(es),
            (true, 4) => gm.store(0x1122_3344u32, GuestAddress(addr), Ordering::SeqCst).map_err(es),
            (true, _) => gm.store(0x1122_3344_5566_7788u64, GuestAddress(addr), Ordering::SeqCst).map_err(es),
            (false, 2) => gm.load::<u16>(GuestAddress(addr), Ordering::SeqCst).map(|_| ()).map_err(es),
            (false, 4) => gm.load::<u32>(GuestAddress(addr), Ordering::SeqCst).map(|_| ()).map_err(es),
            (false, _) => gm.load::<u64>(GuestAddress(addr), Ordering::SeqCst).map(|_| ()).map_err(es),
        });
        cx().mode = Mode::Setup;
        let mut evs: Vec<String> = cx().events[ev0..].iter().filter(|e| matches!(e.kind, EvKind::Read | EvKind::Write | EvKind::Bulk | EvKind::BulkByte | EvKind::Copy | EvKind::Touch)).map(fmt_ev).collect();
        // (Bytes::store reports the reference when it is made and again right before the store
        // goes through it: the same bytes twice)
        evs.dedup();
        let after: Vec<u8> = raw_read((h1 + s1 - back.min(8).min(s1)) as *mut u8, back.min(8).min(s1)).into_iter().chain(raw_read(h2 as *mut u8, 8)).collect();
        let what = format!("atomic {} of {} bytes at {:#x}, {} byte(s) before the seam of regions [{:#x},+{}) and [{:#x},+4096)", if store { "store" } else { "load" }, width, addr, back, base, s1, base + s1 as u64);
        match r {
            OpOutcome::Ok(Ok(())) if fits && aligned => {
                cx().count("probe.atomic_next_to_a_region_seam_accepted");
                if evs.len() != 1 || !evs[0].contains("ref") && !evs[0].contains("touch") {
                    cx().violate("C06", "C06/shape", "atomic access next to a region seam".into(), format!("{}: expected exactly one reference, the seams saw {:?}", what, evs));
                }
            }
            OpOutcome::Ok(Ok(())) => cx().violate("C06", "C06/misaligned-accepted", format!("atomic {} across a region seam or misaligned accepted", if store { "store" } else { "load" }), format!("{}: accepted although the object {}; accesses seen: {:?}", what, if !fits { "does not lie inside the region of its first byte" } else { "is misaligned" }, evs)),
            OpOutcome::Ok(Err(_)) if fits && aligned => cx().violate("C06", "C06/error", "aligned atomic access refused next to a region seam".into(), format!("{}: refused", what)),
            OpOutcome::Ok(Err(_)) => {
                cx().count("probe.atomic_across_a_region_seam_refused");
                if after != before {
                    cx().violate("C06", "C06/torn-write", "refused atomic store changed memory".into(), format!("{}: refused, but guest bytes changed from {:02x?} to {:02x?}", what, before, after));
                }
            }
            OpOutcome::Panic(m) => cx().violate("C06", "C06/panic", "panic in an atomic access next to a region seam".into(), format!("{}: {}", what, m)),
            OpOutcome::Sim(_) => {}
        }
    }
    cx().remove_range(5);
    cx().remove_range(6);
    in_mode(Mode::Setup, || drop(gm));
}

pub struct Tear;
pub static TEAR: Tear = Tear;

fn val_i(i: usize) -> u8 {
    0x10 + i as u8
}
fn val_a(i: usize) -> u8 {
    0x60 + i as u8
}
fn val_b(i: usize) -> u8 {
    0xB0 + i as u8
}

impl Scenario for Tear {
    fn name(&self) -> &'static str {
        "S-tear"
    }

    fn run(&self) -> RunInfo {
        cx().mode = Mode::Setup;
        let c = cx();
        c.cfg.yield_access = true;
        c.cfg.tear_bulk = true;
        c.cfg.log_local = false;
        c.sched.budget = 20_000;
        c.sched.policy = match c.a(6) {
            0 => Policy::Uniform,
            1 => Policy::Sticky(1, 2),
            2 => Policy::Sticky(4, 5),
            3 => Policy::Pct(0),
            4 => Policy::Pct(1),
            _ => Policy::Pct(2),
        };
        let layer = [Layer::Slice, Layer::Slice, Layer::Region, Layer::Gm][c.a(4) as usize];
        let n = match c.a(10) {
            0 => 1,
            1 | 2 => 2,
            3 | 4 => 4,
            5 | 6 | 7 => 8,
            _ => [3usize, 5, 6, 7][c.a(4) as usize],
        };
        // now and then (slice layer, power-of-two lengths) one side's local buffer touches the target:
        // Some((writer side?, after the target?))
        let adjacency: Option<(bool, bool)> = if layer == Layer::Slice && pow2(n) && cx().a(6) == 0 { Some((cx().a(2) == 0, cx().a(2) == 0)) } else { None };
        // world
        let (mut world, base_res) = match layer {
            Layer::Slice if adjacency.is_some() => {
                // the window alone is guest memory; the bytes right before and after it are the
                // caller's own (a host buffer may touch the guest range it is copied to or from)
                let arena = Arena::get(2);
                // SAFETY: inside the arena's data pages.
                let win = unsafe { arena.data().add(512) };
                cx().add_range(win as usize, WIN, 0, true);
                (World { layer, arena: Some(arena), gm: None, win, rid: 0, rbase: 0, back: 0 }, 0)
            }
            Layer::Slice => {
                let arena = Arena::get(2);
                let res = cx().a(8) as usize;
                let win = arena.place(WIN, res, cx().a(2) == 0);
                cx().add_range(arena.data() as usize, arena.data_len(), 0, true);
                let rbase = win as usize - arena.data() as usize;
                (World { layer, arena: Some(arena), gm: None, win, rid: 0, rbase, back: 0 }, res)
            }
            _ => {
                let gm = GuestMemoryMmap::<()>::from_ranges(&[(GuestAddress(GBASE), 4096)]).expect("guest memory");
                let win = gm.get_host_address(GuestAddress(GBASE)).unwrap();
                cx().add_range(win as usize, 4096, 1, true);
                (World { layer, arena: None, gm: Some(gm), win, rid: 1, rbase: 0, back: 0 }, 0)
            }
        };
        let _ = base_res;
        // entries
        let gen_side = |writer: bool| -> Side {
            let c = cx();
            let mut entry = c.a(12) as usize;
            if !pow2(n) && matches!(entry, 8 | 9 | 11) {
                entry = c.a(8) as usize; // no atomic / typed-ref / vCPU forms for odd lengths
            }
            if layer != Layer::Slice && matches!(entry, 3 | 4 | 5 | 9 | 10) && c.a(2) == 0 {
                entry = [0usize, 1, 2, 6, 7, 8][c.a(6) as usize];
                if !pow2(n) && entry == 8 {
                    entry = 2;
                }
            }
            let la = if c.a(3) == 0 { 1 + c.a(7) as usize } else { 0 };
            let presink = if c.a(4) == 0 { 1 + c.a(11) as usize } else { [0usize, 8, 16][c.a(3) as usize] };
            let _ = writer;
            let spare = [64usize, 64, 0, n / 2, n.saturating_sub(1), n][c.a(6) as usize];
            Side { entry, la, presink, nops: 1 + c.a(3) as usize, adj: None, spare }
        };
        let mut ws = gen_side(true);
        let mut rs = gen_side(false);
        // target offset: aligned to n in host terms (demand class) or deliberately not (control)
        let want_aligned = pow2(n) && (cx().a(5) != 0 || ws.entry == 11 || rs.entry == 11);
        let goff = {
            let c = cx();
            let mut o = c.a((WIN - 24) as u32) as usize;
            if pow2(n) {
                let host = world.win as usize + o;
                o += (n - host % n) % n;
                if !want_aligned && n > 1 {
                    o += 1 + c.a(n as u32 - 1) as usize;
                }
            }
            o
        };
        let goff = match adjacency {
            Some((_, true)) => WIN - n,
            Some((_, false)) => 0,
            None => goff,
        };
        if let Some((writer_side, after)) = adjacency {
            let a = if after { world.win as usize + WIN } else { world.win as usize - n };
            let side = if writer_side { &mut ws } else { &mut rs };
            side.adj = Some(a);
            side.la = a % 8;
            cx().count("probe.local_buffer_touches_the_guest_target");
        }
        if layer == Layer::Slice && adjacency.is_none() {
            // how far the slice may start before the window inside the arena's data pages
            let avail = world.win as usize - world.arena.as_ref().unwrap().data() as usize;
            let want = match cx().a(4) {
                0 => 0,
                // the offset of some byte of the target other than the first is a multiple of 4096
                1 | 2 => 4096usize.saturating_sub(goff + 1 + cx().a((n as u32).saturating_sub(1).max(1)) as usize),
                _ => cx().a(4200) as usize,
            };
            world.back = want.min(avail);
            if (world.back + goff) / 4096 != (world.back + goff + n - 1) / 4096 {
                cx().count("probe.slice_offset_of_the_target_straddles_a_page_multiple");
            }
        }
        let host = world.win as usize + goff;
        let guest_aligned = pow2(n) && host % n == 0;
        let init: Vec<u8> = (0..n).map(val_i).collect();
        let va: Vec<u8> = (0..n).map(val_a).collect();
        let vb: Vec<u8> = (0..n).map(val_b).collect();
        // fill the window: target = I, the rest a fixed pattern
        let frame: Vec<u8> = (0..WIN).map(|i| 0xF0 ^ i as u8).collect();
        raw_write(world.win, &frame);
        raw_write(unsafe { world.win.add(goff) }, &init);
        let wrec: RefCell<Vec<OpRec>> = RefCell::new(Vec::new());
        let rrec: RefCell<Vec<OpRec>> = RefCell::new(Vec::new());
        {
            let (w, ws2, rs2) = (&world, &ws, &rs);
            let (va2, vb2) = (&va, &vb);
            let wbody: Box<dyn FnOnce() + '_> = Box::new(|| {
                for k in 0..ws2.nops {
                    let val = if k % 2 == 0 { va2 } else { vb2 };
                    let mut r = OpRec { start: cx().events.len(), local_aligned: local_aligned_for(ws2.entry, ws2.la, 0, n, true), ..Default::default() };
                    cx().op_begin(k as u64);
                    match catch(|| do_write(w, goff, ws2, val)) {
                        OpOutcome::Ok(x) => r.res = Some(x.map(|()| val.clone())),
                        OpOutcome::Panic(m) => r.panic = Some(m),
                        OpOutcome::Sim(s) => r.panic = Some(format!("{:?}", s)),
                    }
                    cx().op_end(k as u64, 0);
                    r.end = cx().events.len();
                    wrec.borrow_mut().push(r);
                }
            });
            let rbody: Box<dyn FnOnce() + '_> = Box::new(|| {
                for k in 0..rs2.nops {
                    let mut r = OpRec { start: cx().events.len(), local_aligned: local_aligned_for(rs2.entry, rs2.la, rs2.presink, n, false), ..Default::default() };
                    cx().op_begin(100 + k as u64);
                    match catch(|| do_read(w, goff, rs2, n)) {
                        OpOutcome::Ok(x) => r.res = Some(x),
                        OpOutcome::Panic(m) => r.panic = Some(m),
                        OpOutcome::Sim(s) => r.panic = Some(format!("{:?}", s)),
                    }
                    cx().op_end(100 + k as u64, 0);
                    r.end = cx().events.len();
                    rrec.borrow_mut().push(r);
                }
            });
            run_concurrent(vec![wbody, rbody]);
        }
        let c = cx();
        c.count_n("sim.steps", c.sched.steps);
        if c.sched.over_budget {
            c.harness_error = Some("step budget exceeded in S-tear".into());
        }
        let wrec = wrec.into_inner();
        let rrec = rrec.into_inner();
        let lname = format!("{:?}", layer);
        let cfg = format!("layer={} len={} guest_addr%8={} {} | writer {} (local%8={}) x{} | reader {} (local%8={}, sink prefix {}) x{}", lname, n, host % 8, if guest_aligned { "aligned" } else { "not aligned to its size" }, W_ENTRIES[ws.entry], ws.la, ws.nops, R_ENTRIES[rs.entry], rs.la, rs.presink, rs.nops);

        // ---- oracles -------------------------------------------------------------------------
        let atomic_form = |e: usize| e == 8;
        let w_demand = guest_aligned && wrec.first().map(|r| r.local_aligned).unwrap_or(false);
        let r_demand = guest_aligned && rrec.first().map(|r| r.local_aligned).unwrap_or(false);
        // (c) misaligned atomics are refused
        for (recs, side, names, is_w) in [(&wrec, &ws, &W_ENTRIES, true), (&rrec, &rs, &R_ENTRIES, false)] {
            for (k, r) in recs.iter().enumerate() {
                if let Some(p) = &r.panic {
                    cx().violate("C06", "C06/panic", format!("panic in {}", names[side.entry]), format!("{}: {} op {} panicked: {}", cfg, if is_w { "writer" } else { "reader" }, k, p));
                    continue;
                }
                if atomic_form(side.entry) && pow2(n) && !guest_aligned {
                    match &r.res {
                        Some(Err(e)) if e.contains("Misaligned") || e.contains("InvalidBackendAddress") => cx().count("probe.misaligned_atomic_refused"),
                        other => cx().violate("C06", "C06/misaligned-atomic", format!("{} at a misaligned address", names[side.entry]), format!("{}: expected a misalignment error, got {:?}", cfg, other)),
                    }
                } else if let Some(Err(e)) = &r.res {
                    cx().violate("C06", "C06/error", format!("error from {}", names[side.entry]), format!("{}: {} op {} failed: {}", cfg, if is_w { "writer" } else { "reader" }, k, e));
                }
            }
        }
        let misaligned_atomic = pow2(n) && !guest_aligned && (atomic_form(ws.entry) || atomic_form(rs.entry));
        // (a) observational
        if !misaligned_atomic {
            let allowed: [&Vec<u8>; 3] = [&init, &va, &vb];
            if w_demand && r_demand {
                for (k, r) in rrec.iter().enumerate() {
                    if let Some(Ok(v)) = &r.res {
                        if !allowed.iter().any(|a| *a == v) {
                            cx().violate("C06", "C06/torn-read", format!("torn value seen by {} racing {}", R_ENTRIES[rs.entry], W_ENTRIES[ws.entry]), format!("{}: reader op {} observed {:02x?}, which is neither the old value {:02x?} nor a written one ({:02x?} / {:02x?})", cfg, k, v, init, va, vb));
                        }
                    }
                }
            }
            // final contents: the last value the writer wrote (the writer is the only writer)
            if !(atomic_form(ws.entry) && !guest_aligned) {
                let fin = raw_read(unsafe { world.win.add(goff) }, n);
                let last = wrec.iter().rev().find_map(|r| r.res.as_ref().and_then(|x| x.as_ref().ok()));
                if let Some(last) = last {
                    if wrec.len() == ws.nops && &fin != last {
                        cx().violate("C06", "C06/final", format!("final value after {}", W_ENTRIES[ws.entry]), format!("{}: memory holds {:02x?} after the last write of {:02x?}", cfg, fin, last));
                    }
                }
                let all = raw_read(world.win, WIN);
                if (0..WIN).any(|i| (i < goff || i >= goff + n) && all[i] != frame[i]) {
                    cx().violate("C06", "C06/final", "bytes around the target changed".into(), format!("{}: a byte outside the {}-byte target changed", cfg, n));
                }
            }
        }
        // (b) access shape
        {
        let shape = |recs: &[OpRec], actor: u8, entry: usize, demand: bool, names: &[&str; 12], is_w: bool| {
            if !demand || entry == 11 {
                return;
            }
            let lo = world.rbase + goff;
            for (k, r) in recs.iter().enumerate() {
                if r.panic.is_some() || !matches!(r.res, Some(Ok(_))) {
                    continue;
                }
                let evs: Vec<_> = cx().events[r.start..r.end].iter().filter(|e| e.actor == actor).cloned().collect();
                let mut prim = Vec::new();
                let mut touches = Vec::new();
                let mut bulk = 0;
                for e in &evs {
                    let rng = |v: u64| -> Option<usize> {
                        if v != 0 && ((v >> 40) - 1) as u32 == world.rid {
                            Some((v & 0xff_ffff_ffff) as usize)
                        } else {
                            None
                        }
                    };
                    match e.kind {
                        EvKind::Read | EvKind::Write => {
                            if let Some(off) = rng(e.a) {
                                if off < lo + n && off + e.b as usize > lo {
                                    prim.push((e.kind, off - world.rbase, e.b as usize));
                                }
                            }
                        }
                        EvKind::Touch => {
                            if let Some(off) = rng(e.a) {
                                if off < lo + n && off + e.b as usize > lo {
                                    touches.push((off - world.rbase, e.b as usize));
                                }
                            }
                        }
                        EvKind::Bulk | EvKind::Copy => {
                            for (v, l) in [(e.a, e.c), (e.b, e.c)] {
                                if let Some(off) = rng(v) {
                                    if off < lo + n && off + l as usize > lo {
                                        bulk += 1;
                                    }
                                }
                            }
                        }
                        _ => {}
                    }
                }
                let who = if is_w { "writer" } else { "reader" };
                if bulk > 0 {
                    cx().count("probe.bulk_copy_of_at_most_8_bytes");
                    cx().violate("C06", "C06/shape", format!("bulk copy used by {} for len {}", names[entry], n), format!("{}: {} op {} moved the {} aligned bytes with a bulk copy instead of one {}-byte access", cfg, who, k, n, n));
                    continue;
                }
                if atomic_form(entry) {
                    // (the reference when it is made, and again right before a store goes through it)
                    touches.dedup();
                    if touches != vec![(goff, n)] || !prim.is_empty() {
                        cx().violate("C06", "C06/shape", format!("access shape of {} len {}", names[entry], n), format!("{}: {} op {}: atomic form made references {:?} and plain accesses {:?}; expected exactly one {}-byte reference", cfg, who, k, touches, prim, n));
                    }
                } else {
                    let want_kind = if is_w { EvKind::Write } else { EvKind::Read };
                    if prim != vec![(want_kind, goff, n)] {
                        cx().violate("C06", "C06/shape", format!("access shape of {} len {}", names[entry], n), format!("{}: {} op {} accessed the guest range as {:?}; expected exactly one {:?} of width {} at offset {}", cfg, who, k, prim, want_kind, n, goff));
                    }
                }
            }
        };
        if !misaligned_atomic {
            shape(&wrec, 0, ws.entry, w_demand, &W_ENTRIES, true);
            shape(&rrec, 1, rs.entry, r_demand, &R_ENTRIES, false);
        }
        }
        if ws.la % 8 != 0 || rs.la % 8 != 0 {
            cx().count("probe.misaligned_local_buffer");
        }
        if w_demand && r_demand {
            cx().count("probe.both_sides_in_the_demand_class");
        }
        let inop = cx().sched.inop_switches;
        let desc = if cx().trace {
            let sched: Vec<String> = cx().events.iter().filter(|e| !matches!(e.kind, EvKind::Sys)).take(80).map(fmt_ev).collect();
            Some(J::obj().set("config", J::s(cfg.clone())).set("writer_results", J::strs(wrec.iter().map(|r| format!("{:02x?}", r.res)))).set("reader_results", J::strs(rrec.iter().map(|r| format!("{:02x?}", r.res)))).set("events", J::strs(sched)))
        } else {
            None
        };
        let cell = Some((format!("{:?} w:{} len{} {}", layer, W_ENTRIES[ws.entry], n, if guest_aligned { "aligned" } else { "unaligned" }), cx().hash));
        cx().count(R_COUNTERS[rs.entry]);
        // the atomic forms use the requested ordering (checked through a recording AtomicInteger)
        if cx().a(8) == 0 && cx().violations.is_empty() {
            cx().mode = Mode::Actor;
            let o4 = (4 - world.win as usize % 4) % 4;
            match world.layer {
                Layer::Slice => ordering_probe(&world.vs(), world.back + o4, "slice"),
                Layer::Region => ordering_probe(world.region(), MemoryRegionAddress(o4 as u64), "region"),
                Layer::Gm => ordering_probe(world.gm.as_ref().unwrap(), GuestAddress(GBASE + o4 as u64), "guest-memory"),
            }
        }
        if cx().a(8) == 0 && cx().violations.is_empty() {
            seam_probe();
        }
        // tear down
        cx().mode = Mode::Setup;
        cx().clear_ranges();
        let World { arena, gm, .. } = world;
        drop(gm);
        if let Some(a) = arena {
            a.release();
        }
        let _ = in_mode(Mode::Oracle, || ());
        cx().mode = Mode::Oracle;
        RunInfo { nontrivial: inop > 0 && (w_demand || r_demand), desc, cell }
    }
}
