//! S-zero: zero-length accesses are successful no-ops at every layer (C18).
//! What the simulator adds to plain input sampling: "touches no memory and marks nothing dirty"
//! is observed at the access / syscall / bitmap seams, and on Xen regions mapped on demand the
//! outcome depends on the emulated device and on mmap.

use super::{RunInfo, Scenario};
use crate::gmworld::{GmWorld, RegSpec};
use crate::json::J;
use crate::sim::{catch, cx, in_mode, EvKind, Mode, OpOutcome};
use crate::world::{raw_read, Arena};
use std::fmt::Debug;
use std::num::NonZeroUsize;
use std::sync::Arc;
use vm_memory::bitmap::{AtomicBitmap, RefSlice};
use vm_memory::{Bytes, GuestAddress, GuestMemory, MemoryRegionAddress, VolatileMemory, VolatileSlice};

pub struct Zero;
pub static ZERO: Zero = Zero;

pub const ENTRIES: [&str; 12] = ["write(&[])", "read(&mut [])", "write_slice(&[])", "read_slice(&mut [])", "write_obj([u8; 0])", "read_obj::<[u8; 0]>", "write_obj([u64; 0])", "read_obj::<[u32; 0]>", "read_volatile_from(.., 0)", "read_exact_volatile_from(.., 0)", "write_volatile_to(.., 0)", "write_all_volatile_to(.., 0)"];

thread_local! {
    /// which source / sink the stream entries use (0 = holds data, 1 = drained slice, 2 = cursor at its end,
    /// 3 = a file descriptor, 4 = a file descriptor positioned at the end of its file)
    static ENDPOINT: std::cell::Cell<u32> = const { std::cell::Cell::new(0) };
}
#[cfg(feature = "xen")]
thread_local! {
    static XEN_ARMED: std::cell::Cell<bool> = const { std::cell::Cell::new(false) };
}
pub const ENDPOINTS: [&str; 5] = ["", " [drained / full in-memory endpoint]", " [cursor at its end]", " [descriptor]", " [descriptor at end of file]"];

/// Issue one zero-length request through the `Bytes` interface. `Ok(detail)` / `Err(error text)`.
fn bytes_zero<A: Copy, T: Bytes<A>>(t: &T, at: A, entry: usize) -> Result<String, String>
where
    T::E: Debug,
{
    let e = |x: T::E| format!("{:?}", x);
    match entry {
        0 => t.write(&[], at).map_err(e).and_then(|n| if n == 0 { Ok("0".into()) } else { Err(format!("count {}", n)) }),
        1 => t.read(&mut [], at).map_err(e).and_then(|n| if n == 0 { Ok("0".into()) } else { Err(format!("count {}", n)) }),
        2 => t.write_slice(&[], at).map_err(e).map(|()| "()".into()),
        3 => t.read_slice(&mut [], at).map_err(e).map(|()| "()".into()),
        4 => t.write_obj::<[u8; 0]>([], at).map_err(e).map(|()| "()".into()),
        5 => t.read_obj::<[u8; 0]>(at).map_err(e).map(|_| "[]".into()),
        6 => t.write_obj::<[u64; 0]>([], at).map_err(e).map(|()| "()".into()),
        7 => t.read_obj::<[u32; 0]>(at).map_err(e).map(|_| "[]".into()),
        8 | 9 => {
            let data = [1u8, 2, 3];
            let exact = entry == 9;
            match ENDPOINT.with(|v| v.get()) {
                0 => {
                    let mut s = &data[..];
                    let r = if exact { t.read_exact_volatile_from(at, &mut s, 0).map(|()| 0) } else { t.read_volatile_from(at, &mut s, 0) };
                    r.map_err(e).and_then(|n| if n == 0 && s.len() == 3 { Ok("0".into()) } else { Err(format!("count {} / source advanced", n)) })
                }
                1 => {
                    // a source that earlier transfers have drained
                    let mut s = &data[3..];
                    let r = if exact { t.read_exact_volatile_from(at, &mut s, 0).map(|()| 0) } else { t.read_volatile_from(at, &mut s, 0) };
                    r.map_err(e).and_then(|n| if n == 0 { Ok("0".into()) } else { Err(format!("count {}", n)) })
                }
                k @ (3 | 4) => {
                    use std::io::{Seek, SeekFrom, Write};
                    let mut f = crate::gmworld::memfd(0);
                    f.write_all(&data).expect("memfd write");
                    let pos = if k == 3 { 0 } else { 3 };
                    f.seek(SeekFrom::Start(pos)).expect("seek");
                    let r = if exact { t.read_exact_volatile_from(at, &mut f, 0).map(|()| 0) } else { t.read_volatile_from(at, &mut f, 0) };
                    let now = f.stream_position().expect("position");
                    r.map_err(e).and_then(|n| if n == 0 && now == pos { Ok("0".into()) } else { Err(format!("count {} / descriptor position {} -> {}", n, pos, now)) })
                }
                _ => {
                    let mut c = std::io::Cursor::new(&data[..]);
                    c.set_position(3 + (at_hint() % 3));
                    let before = c.position();
                    let r = if exact { t.read_exact_volatile_from(at, &mut c, 0).map(|()| 0) } else { t.read_volatile_from(at, &mut c, 0) };
                    r.map_err(e).and_then(|n| if n == 0 && c.position() == before { Ok("0".into()) } else { Err(format!("count {} / cursor moved", n)) })
                }
            }
        }
        _ => {
            let exact = entry != 10;
            match ENDPOINT.with(|v| v.get()) {
                0 => {
                    let mut sink: Vec<u8> = vec![9];
                    let r = if exact { t.write_all_volatile_to(at, &mut sink, 0).map(|()| 0) } else { t.write_volatile_to(at, &mut sink, 0) };
                    r.map_err(e).and_then(|n| if n == 0 && sink == [9] { Ok("0".into()) } else { Err(format!("count {} / sink changed", n)) })
                }
                1 => {
                    // a sink with no room left
                    let mut backing = [7u8; 2];
                    let mut sink: &mut [u8] = &mut backing[2..];
                    let r = if exact { t.write_all_volatile_to(at, &mut sink, 0).map(|()| 0) } else { t.write_volatile_to(at, &mut sink, 0) };
                    r.map_err(e).and_then(|n| if n == 0 { Ok("0".into()) } else { Err(format!("count {}", n)) })
                }
                k @ (3 | 4) => {
                    use std::io::{Seek, SeekFrom, Write};
                    let mut f = crate::gmworld::memfd(0);
                    f.write_all(&[5, 6, 7]).expect("memfd write");
                    let pos = if k == 3 { 0 } else { 3 };
                    f.seek(SeekFrom::Start(pos)).expect("seek");
                    let r = if exact { t.write_all_volatile_to(at, &mut f, 0).map(|()| 0) } else { t.write_volatile_to(at, &mut f, 0) };
                    let now = f.stream_position().expect("position");
                    let len = f.metadata().map(|m| m.len()).unwrap_or(0);
                    r.map_err(e).and_then(|n| if n == 0 && now == pos && len == 3 { Ok("0".into()) } else { Err(format!("count {} / descriptor position {} -> {}, length {}", n, pos, now, len)) })
                }
                _ => {
                    let mut backing = [7u8; 2];
                    let mut c = std::io::Cursor::new(&mut backing[..]);
                    c.set_position(2 + (at_hint() % 3));
                    let r = if exact { t.write_all_volatile_to(at, &mut c, 0).map(|()| 0) } else { t.write_volatile_to(at, &mut c, 0) };
                    r.map_err(e).and_then(|n| if n == 0 { Ok("0".into()) } else { Err(format!("count {}", n)) })
                }
            }
        }
    }
}

fn at_hint() -> u64 {
    ENDPOINT.with(|v| v.get()) as u64
}

/// copies of zero elements / of zero-sized elements on a slice
fn slice_zero<B: vm_memory::bitmap::BitmapSlice>(s: &VolatileSlice<'_, B>, entry: usize) -> Result<String, String> {
    let e = |x: vm_memory::volatile_memory::Error| format!("{:?}", x);
    match entry {
        0 => Ok(format!("{}", s.copy_to::<[u8; 0]>(&mut [[]; 3]))),
        1 => {
            s.copy_from::<[u8; 0]>(&[[]; 3]);
            Ok("()".into())
        }
        2 => Ok(format!("{}", s.copy_to::<u8>(&mut []))),
        3 => {
            s.copy_from::<u8>(&[]);
            Ok("()".into())
        }
        4 => Ok(format!("{}", s.copy_to::<u32>(&mut []))),
        5 => {
            s.copy_from::<u64>(&[]);
            Ok("()".into())
        }
        6 => {
            let a = s.get_array_ref::<[u8; 0]>(0, 3).map_err(e)?;
            Ok(format!("{}", a.copy_to(&mut [[]; 2])))
        }
        7 => {
            let a = s.get_array_ref::<[u8; 0]>(0, 3).map_err(e)?;
            a.copy_from(&[[]; 2]);
            Ok("()".into())
        }
        8 => {
            let a = s.get_array_ref::<u32>(0, 0).map_err(e)?;
            let n = a.copy_to(&mut [7u32; 2]);
            a.copy_from(&[7u32; 2]);
            if n == 0 {
                Ok("0".into())
            } else {
                Err(format!("copied {} elements out of an empty array", n))
            }
        }
        9 => {
            let empty = s.subslice(s.len().min(1), 0).map_err(e)?;
            s.copy_to_volatile_slice(empty.clone());
            empty.copy_to_volatile_slice(s.clone());
            Ok("()".into())
        }
        10 => {
            let a = s.get_array_ref::<[u16; 0]>(0, 5).map_err(e)?;
            a.copy_to_volatile_slice(s.clone());
            Ok("()".into())
        }
        _ => {
            let a = s.get_array_ref::<u8>(s.len().min(2), 0).map_err(e)?;
            let n = a.copy_to(&mut []);
            a.copy_from(&[]);
            Ok(format!("{}", n))
        }
    }
}
pub const SLICE_ENTRIES: [&str; 12] = ["copy_to::<[u8; 0]>", "copy_from::<[u8; 0]>", "copy_to::<u8>(&mut [])", "copy_from::<u8>(&[])", "copy_to::<u32>(&mut [])", "copy_from::<u64>(&[])", "array<[u8; 0]>.copy_to", "array<[u8; 0]>.copy_from", "empty array<u32>.copy_to/copy_from", "copy_to_volatile_slice with an empty slice", "array<[u16; 0]>.copy_to_volatile_slice", "empty array<u8>.copy_to/copy_from"];

#[derive(Clone, Copy, Debug, PartialEq, Eq)]
enum Layer {
    Slice,
    Region,
    Gm,
    #[cfg(feature = "xen")]
    Xen(super::xen::Kind),
}

fn touch_events(from: usize) -> Vec<String> {
    // accesses of width 0 (zero-sized element types) and copies of 0 bytes touch nothing
    cx().events[from..]
        .iter()
        .filter(|e| match e.kind {
            EvKind::Read | EvKind::Write | EvKind::Touch => e.b > 0,
            EvKind::Bulk | EvKind::Copy => e.c > 0,
            EvKind::BulkByte | EvKind::Atomic => true,
            // (a read(2) / write(2) asked for 0 bytes moves nothing either)
            EvKind::Sys => (e.a == 3 || e.a == 4) && e.b > 0,
            _ => false,
        })
        .map(crate::sim::fmt_ev)
        .collect()
}

impl Scenario for Zero {
    fn name(&self) -> &'static str {
        "S-zero"
    }

    fn run(&self) -> RunInfo {
        cx().mode = Mode::Setup;
        cx().cfg.log_local = true;
        #[cfg(feature = "xen")]
        let layer = match cx().a(6) {
            0 => Layer::Slice,
            1 => Layer::Region,
            2 => Layer::Gm,
            3 => Layer::Xen(super::xen::Kind::GrantAdvance),
            4 => Layer::Xen(super::xen::Kind::Foreign),
            _ => Layer::Xen(super::xen::Kind::GrantOnDemand),
        };
        #[cfg(not(feature = "xen"))]
        let layer = [Layer::Slice, Layer::Region, Layer::Gm, Layer::Gm][cx().a(4) as usize];
        // ---- world ----------------------------------------------------------------------------
        let mut arena: Option<Arena> = None;
        let mut sptr = std::ptr::null_mut();
        let mut slen = 0usize;
        let mut sbitmap: Option<Arc<AtomicBitmap>> = None;
        let mut gw: Option<GmWorld<AtomicBitmap>> = None;
        #[cfg(feature = "xen")]
        let mut xw: Option<super::xen::XWorld> = None;
        match layer {
            Layer::Slice => {
                let a = Arena::get(2);
                slen = match cx().a(5) {
                    0 => 0,
                    1 => 1,
                    _ => 1 + cx().a(200) as usize,
                };
                sptr = a.place(slen, cx().a(8) as usize, cx().a(2) == 0);
                cx().add_range(a.data() as usize, a.data_len(), 0, true);
                sbitmap = Some(Arc::new(AtomicBitmap::new(slen + 64, NonZeroUsize::new([1usize, 8, 4096][cx().a(3) as usize]).unwrap())));
                arena = Some(a);
            }
            Layer::Region | Layer::Gm => {
                let c = cx();
                let n = if layer == Layer::Region { 1 } else { 1 + c.a(3) as usize };
                let mut regs = Vec::new();
                let mut cur = [0u64, 0x1000, 0x8000][c.a(3) as usize];
                for i in 0..n {
                    let size = c.pick(&[1usize, 100, 4096, 4097]);
                    let top = i + 1 == n && c.a(5) == 0;
                    regs.push(RegSpec { base: if top { u64::MAX - size as u64 } else { cur }, size, file_off: None });
                    cur += size as u64 + [0u64, 1, 0x1000][c.a(3) as usize];
                }
                gw = Some(GmWorld::<AtomicBitmap>::build(regs, 3));
            }
            #[cfg(feature = "xen")]
            Layer::Xen(k) => xw = Some(super::xen::XWorld::new(k)),
        }
        let snapshot = |sptr: *mut u8, slen: usize, gw: &Option<GmWorld<AtomicBitmap>>| -> Vec<Vec<u8>> {
            match gw {
                Some(w) => w.regs.iter().enumerate().map(|(i, r)| raw_read(w.ptrs[i], r.size)).collect(),
                None if !sptr.is_null() => vec![raw_read(sptr, slen)],
                None => vec![],
            }
        };
        let bitmap_state = |sb: &Option<Arc<AtomicBitmap>>, gw: &Option<GmWorld<AtomicBitmap>>| -> Vec<Vec<u64>> {
            in_mode(Mode::Oracle, || match (sb, gw) {
                (Some(b), _) => vec![(**b).clone().get_and_reset()],
                (_, Some(w)) => w.regs.iter().map(|r| { use vm_memory::GuestMemoryRegion; w.gm.find_region(GuestAddress(r.base)).unwrap().bitmap().clone().get_and_reset() }).collect(),
                _ => vec![],
            })
        };
        let nact = 1 + cx().a(3);
        let nops = 1 + cx().a(10) as usize;
        let mut log: Vec<String> = Vec::new();
        let mut kinds_ok = 0;
        let mut kinds_err = 0;
        for step in 0..nops {
            if !cx().violations.is_empty() {
                break;
            }
            cx().actor = cx().a(nact) as u8;
            // now and then another actor makes a non-empty access to the same memory
            if cx().a(3) == 0 {
                in_mode(Mode::Actor, || match layer {
                    Layer::Slice if slen > 0 => {
                        // SAFETY: arena memory.
                        let s = unsafe { VolatileSlice::with_bitmap(sptr, slen, RefSlice::new(&**sbitmap.as_ref().unwrap(), 16), None) };
                        let _ = s.write(&[0x77], 0);
                    }
                    Layer::Region | Layer::Gm => {
                        let w = gw.as_ref().unwrap();
                        let _ = w.gm.write(&[0x77, 0x78], GuestAddress(w.regs[0].base));
                    }
                    _ => {}
                });
                log.push("(another actor writes a byte)".into());
            }
            let endpoint = cx().a(5);
            ENDPOINT.with(|v| v.set(endpoint));
            // a request that names no bytes needs no mapping: on Xen regions, now and then, any map
            // request (ioctl or mmap) it made would fail
            #[cfg(feature = "xen")]
            if xw.is_some() && cx().a(3) == 0 {
                XEN_ARMED.with(|v| v.set(true));
                if cx().a(2) == 0 {
                    let k = cx().sys.xen.as_ref().unwrap().map_calls;
                    cx().sys.xen.as_mut().unwrap().fail_map_at = Some(k);
                } else {
                    cx().sys.fail_mmap_at = Some((cx().sys.mmap_calls, libc::ENOMEM));
                }
            }
            let mem_before = snapshot(sptr, slen, &gw);
            let bm_before = bitmap_state(&sbitmap, &gw);
            #[cfg(feature = "xen")]
            let (win_before, grants_before, xmem_before) = (cx().sys.live_count(), cx().sys.xen.as_ref().map(|x| x.live_grants()).unwrap_or_default(), xw.as_ref().map(|w| w.backing()));
            let ev_from;
            let desc: String;
            let res: OpOutcome<Result<String, String>>;
            // is the start address valid for a non-empty access?
            let valid: bool;
            let entry_is_stream: bool;
            let copy_form: bool;
            cx().mode = Mode::Actor;
            match layer {
                Layer::Slice => {
                    // SAFETY: arena memory.
                    let s = unsafe { VolatileSlice::with_bitmap(sptr, slen, RefSlice::new(&**sbitmap.as_ref().unwrap(), 16), None) };
                    if cx().a(3) == 0 {
                        let entry = cx().a(12) as usize;
                        desc = format!("slice[{}].{}", slen, SLICE_ENTRIES[entry]);
                        valid = true;
                        entry_is_stream = false;
                        copy_form = true;
                        ev_from = cx().events.len();
                        cx().op_begin(step as u64);
                        res = catch(|| slice_zero(&s, entry));
                    } else {
                        let entry = cx().a(12) as usize;
                        let addr = match cx().a(7) {
                            0 => 0,
                            1 => slen,
                            2 => slen + 1,
                            3 => usize::MAX,
                            4 => slen.saturating_sub(1),
                            _ => cx().a(slen as u32 + 1) as usize,
                        };
                        desc = format!("slice[{}].{} at {}", slen, ENTRIES[entry], addr);
                        valid = addr < slen;
                        entry_is_stream = entry >= 8;
                        copy_form = false;
                        ev_from = cx().events.len();
                        cx().op_begin(step as u64);
                        res = catch(|| bytes_zero(&s, addr, entry));
                    }
                }
                Layer::Region => {
                    let w = gw.as_ref().unwrap();
                    let size = w.regs[0].size;
                    let entry = cx().a(12) as usize;
                    let addr = match cx().a(6) {
                        0 => 0,
                        1 => size as u64,
                        2 => size as u64 + 1,
                        3 => u64::MAX,
                        _ => cx().a(size as u32) as u64,
                    };
                    // now and then the region itself is empty (a zero-sized region around an external pointer)
                    #[cfg(not(feature = "xen"))]
                    let empty_region = if cx().a(6) == 0 {
                        // SAFETY: a zero-sized region touches nothing; the pointer is a live, page-aligned mapping of ours.
                        in_mode(Mode::Setup, || unsafe { vm_memory::MmapRegion::<()>::build_raw(w.ptrs[0], 0, libc::PROT_READ | libc::PROT_WRITE, libc::MAP_PRIVATE | libc::MAP_ANONYMOUS) }.ok().and_then(|m| vm_memory::GuestRegionMmap::new(m, GuestAddress(0x9000)).ok()))
                    } else {
                        None
                    };
                    #[cfg(feature = "xen")]
                    let empty_region: Option<vm_memory::GuestRegionMmap<()>> = None;
                    entry_is_stream = entry >= 8;
                    copy_form = false;
                    if let Some(er) = empty_region.as_ref() {
                        desc = format!("empty region[0].{} at {}", ENTRIES[entry], addr);
                        valid = false;
                        ev_from = cx().events.len();
                        cx().op_begin(step as u64);
                        res = catch(|| bytes_zero(er, MemoryRegionAddress(addr), entry));
                    } else {
                        desc = format!("region[{}].{} at {}", size, ENTRIES[entry], addr);
                        valid = addr < size as u64;
                        let r = w.gm.find_region(GuestAddress(w.regs[0].base)).unwrap();
                        ev_from = cx().events.len();
                        cx().op_begin(step as u64);
                        res = catch(|| bytes_zero(r, MemoryRegionAddress(addr), entry));
                    }
                }
                Layer::Gm => {
                    let w = gw.as_ref().unwrap();
                    let entry = cx().a(12) as usize;
                    let addr = match cx().a(4) {
                        0 => [0u64, u64::MAX, u64::MAX - 1][cx().a(3) as usize],
                        _ => crate::gmworld::gen_gaddr(&w.regs),
                    };
                    desc = format!("guest_memory{:?}.{} at {:#x} ({})", w.describe(), ENTRIES[entry], addr, if w.find(addr).is_some() { "mapped" } else { "unmapped" });
                    valid = w.find(addr).is_some();
                    entry_is_stream = entry >= 8;
                    copy_form = false;
                    ev_from = cx().events.len();
                    cx().op_begin(step as u64);
                    res = catch(|| bytes_zero(&w.gm, GuestAddress(addr), entry));
                }
                #[cfg(feature = "xen")]
                Layer::Xen(k) => {
                    let w = xw.as_ref().unwrap();
                    let entry = cx().a(12) as usize;
                    let addr = match cx().a(7) {
                        0 => 0,
                        1 => w.size as u64,
                        2 => 4096u64.min(w.size as u64 - 1),
                        3 => w.size as u64 + 1,
                        4 => w.size as u64 - 1,
                        _ => cx().a(w.size as u32) as u64,
                    };
                    desc = format!("xen {:?} region[{}].{} at {}", k, w.size, ENTRIES[entry], addr);
                    valid = addr < w.size as u64;
                    entry_is_stream = entry >= 8;
                    copy_form = false;
                    ev_from = cx().events.len();
                    cx().op_begin(step as u64);
                    res = catch(|| bytes_zero(&w.region, MemoryRegionAddress(addr), entry));
                }
            }
            cx().op_end(step as u64, 0);
            cx().mode = Mode::Setup;
            let touches = touch_events(ev_from);
            let layer_name = match layer {
                Layer::Slice => "slice",
                Layer::Region => "region",
                Layer::Gm => "guest_memory",
                #[cfg(feature = "xen")]
                Layer::Xen(super::xen::Kind::GrantOnDemand) => "xen on-demand region",
                #[cfg(feature = "xen")]
                Layer::Xen(_) => "xen region mapped in advance",
            };
            let op_name = desc.split('.').nth(1).map(|s| s.split(" at ").next().unwrap_or(s)).unwrap_or("?").to_string();
            let op_name = if copy_form { desc.split_once("].").map(|x| x.1.to_string()).unwrap_or(op_name) } else { op_name };
            let addr_class = if valid { "valid address" } else { "address not valid for a non-empty access" };
            let fp = format!("layer={} op={} {}", layer_name, op_name, addr_class);
            #[cfg(feature = "xen")]
            let armed = {
                let a = XEN_ARMED.with(|v| v.replace(false));
                cx().sys.fail_mmap_at = None;
                if let Some(x) = cx().sys.xen.as_mut() {
                    x.fail_map_at = None;
                }
                a
            };
            #[cfg(not(feature = "xen"))]
            let armed = false;
            log.push(format!("{}{}{} -> {:?}", desc, if entry_is_stream { ENDPOINTS[endpoint as usize] } else { "" }, if armed { " [any map request would fail]" } else { "" }, res_str(&res)));
            let line = log.last().unwrap().clone();
            match &res {
                OpOutcome::Panic(m) => {
                    cx().violate("C18", "C18/panic", fp.clone(), format!("{}: panicked: {}", line, m));
                    kinds_err += 1;
                }
                OpOutcome::Sim(s) => {
                    cx().violate("C18", "C18/touch", fp.clone(), format!("{}: simulated fault {:?}", line, s));
                    kinds_err += 1;
                }
                OpOutcome::Ok(Err(e)) => {
                    kinds_err += 1;
                    // empty buffers and zero-sized objects succeed at any address; zero-count stream
                    // transfers and zero-sized-element copies at every address valid for a non-empty access
                    if !entry_is_stream || valid {
                        cx().violate("C18", "C18/result", fp.clone(), format!("{}: a zero-length request must succeed here ({}), it returned {}", line, if entry_is_stream { "the address is valid for a non-empty access" } else { "empty buffers and zero-sized objects succeed at any address" }, e));
                    }
                }
                OpOutcome::Ok(Ok(_)) => kinds_ok += 1,
            }
            if !touches.is_empty() {
                cx().violate("C18", "C18/touch", fp.clone(), format!("{}: the request touched memory or a bitmap word: {:?}", line, &touches[..touches.len().min(4)]));
            }
            if snapshot(sptr, slen, &gw) != mem_before {
                cx().violate("C18", "C18/memory-changed", fp.clone(), format!("{}: memory changed", line));
            }
            if bitmap_state(&sbitmap, &gw) != bm_before {
                cx().violate("C18", "C18/marked-dirty", fp.clone(), format!("{}: the dirty bitmap changed", line));
            }
            #[cfg(feature = "xen")]
            if let Some(w) = xw.as_ref() {
                let dev = cx().sys.xen.as_ref().unwrap();
                if cx().sys.live_count() != win_before || dev.live_grants() != grants_before {
                    cx().violate("C18", "C18/window-left", fp.clone(), format!("{}: a temporary mapping or grant was left behind ({} mappings, grants {:x?})", line, cx().sys.live_count(), dev.live_grants()));
                }
                if Some(w.backing()) != xmem_before {
                    cx().violate("C18", "C18/memory-changed", fp.clone(), format!("{}: guest memory changed", line));
                }
                let faults = std::mem::take(&mut cx().sys.mmu_faults);
                if let Some(f) = faults.first() {
                    cx().violate("C18", "C18/touch", fp.clone(), format!("{}: {}", line, f));
                }
                cx().sys.xen.as_mut().unwrap().anomalies.clear();
            }
            cx().sys.anomalies.clear();
        }
        cx().actor = 0;
        let desc = if cx().trace { Some(J::obj().set("layer", J::s(format!("{:?}", layer))).set("requests", J::strs(log.clone()))) } else { None };
        cx().mode = Mode::Setup;
        cx().clear_ranges();
        if let Some(w) = gw {
            w.teardown();
        }
        #[cfg(feature = "xen")]
        {
            in_mode(Mode::Setup, || drop(xw));
            cx().sys.xen = None;
        }
        if let Some(a) = arena {
            a.release();
        }
        cx().mode = Mode::Oracle;
        RunInfo { nontrivial: kinds_ok > 0 && (kinds_err > 0 || nops > 3), desc, cell: None }
    }
}

fn res_str(r: &OpOutcome<Result<String, String>>) -> String {
    match r {
        OpOutcome::Ok(Ok(s)) => format!("Ok({})", s),
        OpOutcome::Ok(Err(e)) => format!("Err({})", e),
        OpOutcome::Panic(m) => format!("PANIC {}", m),
        OpOutcome::Sim(s) => format!("{:?}", s),
    }
}
