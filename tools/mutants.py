#!/usr/bin/env python3
"""Sensitivity runner: apply each deliberate property-breaking mutation to /repo's working tree,
run the quick check of the property it is meant to break, and undo it (git checkout).
usage: tools/mutants.py [--prop C08] [--id M08a ...] [--tier quick] [--scratch TAG]
With --scratch the mutations are applied to a scratch worktree of /repo and checked by a scratch
snapshot of /verif pointed at it (development aid; /repo stays untouched).
Results are appended to mutants/results.jsonl; a summary table is printed."""
import json, subprocess, sys, time, os, re, shutil
ROOT = os.path.dirname(os.path.dirname(os.path.abspath(__file__)))
REPO = "/repo"
CHECK = os.path.join(ROOT, "check")

def scratch(tag):
    global REPO, CHECK
    snap, wt = f"/tmp/vsnap-{tag}", f"/tmp/rwt-{tag}"
    shutil.rmtree(snap, ignore_errors=True)
    subprocess.run(f"git -C /repo worktree remove --force {wt}; git -C /repo worktree prune", shell=True, capture_output=True)
    os.makedirs(snap)
    subprocess.run(f"rsync -a --exclude /.git --exclude /replays --exclude /out --exclude /seeded --exclude /mutants --exclude /evidence {ROOT}/ {snap}/", shell=True, check=True)
    subprocess.run(f"git -C /repo worktree add --detach {wt} HEAD", shell=True, check=True, capture_output=True)
    ct = open(f"{snap}/sim/Cargo.toml").read().replace('path = "/repo"', f'path = "{wt}"')
    open(f"{snap}/sim/Cargo.toml", "w").write(ct)
    os.makedirs(f"{snap}/evidence", exist_ok=True)
    REPO, CHECK = wt, f"{snap}/check"
    return snap, wt

def load():
    ms = []
    for fn in sorted(os.listdir(os.path.join(ROOT, "mutants"))):
        if fn.endswith(".json"):
            ms += json.load(open(os.path.join(ROOT, "mutants", fn)))
    return ms

def main():
    args = sys.argv[1:]
    props, ids, tier, tag = set(), set(), "quick", None
    i = 0
    while i < len(args):
        if args[i] == "--prop": props.add(args[i+1]); i += 2
        elif args[i] == "--id": ids.add(args[i+1]); i += 2
        elif args[i] == "--tier": tier = args[i+1]; i += 2
        elif args[i] == "--scratch": tag = args[i+1]; i += 2
        else: i += 1
    sc = scratch(tag) if tag else None
    assert subprocess.run(["git", "-C", REPO, "status", "--porcelain", "--untracked-files=no"], capture_output=True, text=True).stdout.strip() == "", "repo dirty"
    rows = []
    for m in load():
        if props and m["prop"] not in props: continue
        if ids and m["id"] not in ids: continue
        try:
            for ed in m["edits"]:
                p = os.path.join(REPO, ed["file"])
                s = open(p).read()
                n = s.count(ed["old"])
                if n != ed.get("count", 1):
                    raise RuntimeError(f"{m['id']}: pattern occurs {n} times in {ed['file']}")
                s = s.replace(ed["old"], ed["new"])
                open(p, "w").write(s)
            t0 = time.time()
            env = dict(os.environ)
            env.setdefault("VERIF_MAX_S", "120"); env.setdefault("VERIF_SHRINK_S", "3")
            env.setdefault("VMSIM_HANG_S", "60")
            r = subprocess.run([CHECK, m["prop"], tier], capture_output=True, text=True, env=env)
            dt = time.time() - t0
            viol = [l for l in r.stdout.splitlines() if l.startswith("VIOLATION")]
            classes = sorted(set(re.findall(r"^\s+(C\d+/\S+)", r.stderr, re.M)))
            row = {"id": m["id"], "prop": m["prop"], "what": m["what"], "exit": r.returncode, "violations": len(viol), "classes": classes, "wall_s": round(dt, 1)}
            if r.returncode == 2:
                row["stderr"] = r.stderr[-600:]
        except RuntimeError as e:
            row = {"id": m["id"], "prop": m["prop"], "what": m["what"], "exit": -2, "violations": 0, "classes": [], "wall_s": 0, "stderr": str(e)}
        finally:
            subprocess.run(["git", "-C", REPO, "checkout", "--", "."], check=True)
        rows.append(row)
        print(json.dumps(row), flush=True)
        with open(os.path.join(ROOT, "mutants", "results.jsonl"), "a") as f:
            f.write(json.dumps(row) + "\n")
    if sc:
        subprocess.run(f"git -C /repo worktree remove --force {sc[1]}; git -C /repo worktree prune", shell=True, capture_output=True)
        shutil.rmtree(sc[0], ignore_errors=True)
    caught = sum(1 for r in rows if r["exit"] == 1)
    print(f"caught {caught}/{len(rows)}")
    # leave no replay files of mutants behind
    return 0

if __name__ == "__main__":
    sys.exit(main())
