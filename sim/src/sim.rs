//! Simulator core: choice tape, per-run context, event log, seam hooks, coroutine scheduler.

use crate::rng::Rng;
use corosensei::stack::DefaultStack;
use corosensei::{Coroutine, CoroutineResult, Yielder};
use std::cell::{Cell, RefCell};
use std::collections::BTreeMap;
use vm_memory::verif::{AtomicOp, SimHooks, SwapPoint};

// ---------------------------------------------------------------------------------------------
// Tape

#[derive(Clone, Debug, Default)]
pub struct Tape {
    /// workload section (configuration, generated operations)
    pub a: Vec<u32>,
    /// execution section (schedule and fault decisions)
    pub b: Vec<u32>,
    ia: usize,
    ib: usize,
    replay: bool,
    rng: Option<Rng>,
}

impl Tape {
    pub fn record(seed: u64) -> Tape {
        Tape {
            rng: Some(Rng::new(seed)),
            ..Default::default()
        }
    }
    pub fn replay(a: Vec<u32>, b: Vec<u32>) -> Tape {
        Tape {
            a,
            b,
            replay: true,
            ..Default::default()
        }
    }
    fn draw(&mut self, n: u32, sect_b: bool) -> u32 {
        if n <= 1 {
            // still consumes a slot so that shrinking numeric values never shifts the tape
            if self.replay {
                if sect_b {
                    self.ib += 1;
                } else {
                    self.ia += 1;
                }
            } else if sect_b {
                self.b.push(0);
            } else {
                self.a.push(0);
            }
            return 0;
        }
        if self.replay {
            let (v, i) = if sect_b { (&self.b, &mut self.ib) } else { (&self.a, &mut self.ia) };
            let r = v.get(*i).copied().unwrap_or(0) % n;
            *i += 1;
            r
        } else {
            let r = self.rng.as_mut().unwrap().below(n);
            if sect_b {
                self.b.push(r);
            } else {
                self.a.push(r);
            }
            r
        }
    }
    pub fn used(&self) -> (usize, usize) {
        if self.replay {
            (self.ia.min(self.a.len()), self.ib.min(self.b.len()))
        } else {
            (self.a.len(), self.b.len())
        }
    }
}

// ---------------------------------------------------------------------------------------------
// Events

#[derive(Clone, Copy, Debug, PartialEq, Eq)]
pub enum EvKind {
    OpStart,
    OpEnd,
    Atomic,
    Read,
    Write,
    Bulk,
    BulkByte,
    Copy,
    Touch,
    Swap,
    Sys,
    Fault,
    Sched,
    Note,
}

#[derive(Clone, Copy, Debug)]
pub struct Ev {
    pub actor: u8,
    pub kind: EvKind,
    pub a: u64,
    pub b: u64,
    pub c: u64,
}

#[derive(Clone, Debug)]
pub struct Violation {
    pub property: &'static str,
    /// oracle id, e.g. "C08/conservation"
    pub class: String,
    /// distinguishing coordinates of the failing case (never a seed)
    pub fingerprint: String,
    pub message: String,
}

#[derive(Clone, Copy, Debug, PartialEq, Eq)]
pub enum Mode {
    /// plain pass-through: no event, no yield, no fault
    Oracle,
    /// events only
    Setup,
    /// events, yields, injected faults
    Actor,
}

#[derive(Clone, Copy, Debug, PartialEq, Eq)]
pub enum Policy {
    Uniform,
    /// stay on the current actor with probability num/den
    Sticky(u32, u32),
    /// PCT-style priorities with the given number of priority change points
    Pct(u32),
}

#[derive(Clone, Copy, Debug, PartialEq, Eq)]
pub enum ASt {
    Runnable,
    Blocked(usize),
    Done,
}

pub struct Sched {
    pub active: bool,
    pub cur: usize,
    pub next: usize,
    pub st: Vec<ASt>,
    yielders: Vec<*const Yielder<(), ()>>,
    pub policy: Policy,
    pub steps: u64,
    pub budget: u64,
    pub switches: u64,
    pub inop_switches: u64,
    prio: Vec<u32>,
    change_pts: Vec<u64>,
    pub deadlock: bool,
    pub over_budget: bool,
}

impl Default for Sched {
    fn default() -> Self {
        Sched {
            active: false,
            cur: 0,
            next: 0,
            st: Vec::new(),
            yielders: Vec::new(),
            policy: Policy::Uniform,
            steps: 0,
            budget: 5000,
            switches: 0,
            inop_switches: 0,
            prio: Vec::new(),
            change_pts: Vec::new(),
            deadlock: false,
            over_budget: false,
        }
    }
}

/// A registered address range whose addresses are logged as (id, offset).
#[derive(Clone, Copy, Debug)]
pub struct Range {
    pub start: usize,
    pub len: usize,
    pub id: u32,
    /// guest RAM (true) or a bitmap / other object (false)
    pub guest: bool,
}

#[derive(Default)]
pub struct HookCfg {
    pub yield_atomic: bool,
    pub yield_access: bool,
    pub yield_swap: bool,
    pub tear_bulk: bool,
    /// log accesses to unregistered (local) memory with their address modulo 8
    pub log_local: bool,
    /// do not identify bitmap words in the log (their addresses are not stable across reallocations)
    pub anon_atomics: bool,
    /// let the scheduler switch right before a read(2)/write(2) reaches the kernel (a blocking call)
    pub yield_sys: bool,
}

/// Payload of panics the simulator raises on purpose.
#[derive(Debug, Clone)]
pub enum SimPanic {
    Budget,
    Fault { addr: usize, len: usize, why: &'static str },
    Deadlock,
}

pub struct Ctx {
    pub tape: Tape,
    pub events: Vec<Ev>,
    pub hash: u64,
    pub trace: bool,
    pub counters: BTreeMap<&'static str, u64>,
    pub violations: Vec<Violation>,
    pub mode: Mode,
    pub actor: u8,
    pub sched: Sched,
    pub ranges: Vec<Range>,
    pub cfg: HookCfg,
    /// guest bytes the operation in progress is allowed to touch: (range id, lo, hi)
    pub allowed: Vec<(u32, usize, usize)>,
    /// judge only accesses that change guest bytes (primitive, bulk and copy writes) against `allowed`
    pub allowed_writes_only: bool,
    /// set by hooks when a touch lands outside `allowed`
    pub stray: Option<String>,
    pub sys: crate::sys::SysModel,
    /// number of seam events per kind in this run
    pub seam_events: u64,
    pub discarded: bool,
    pub harness_error: Option<String>,
    pub op_depth: u32,
    /// bitmap words in order of first sight (word k of a primed bitmap is id k)
    pub atomic_ids: Vec<usize>,
}

thread_local! {
    static CTX: Cell<*mut Ctx> = const { Cell::new(std::ptr::null_mut()) };
    pub static LAST_PANIC: RefCell<String> = const { RefCell::new(String::new()) };
}

/// The current run's context. Callers must not keep the reference across a call into
/// vm-memory (hooks re-enter through this function).
#[inline]
pub fn cx() -> &'static mut Ctx {
    let p = CTX.with(|c| c.get());
    assert!(!p.is_null(), "no simulation context installed");
    // SAFETY: single-threaded worker; the context outlives the run; references are short-lived.
    unsafe { &mut *p }
}

#[inline]
fn cx_opt() -> Option<&'static mut Ctx> {
    let p = CTX.with(|c| c.get());
    if p.is_null() {
        None
    } else {
        // SAFETY: see cx().
        Some(unsafe { &mut *p })
    }
}

impl Ctx {
    pub fn new(tape: Tape, trace: bool) -> Box<Ctx> {
        Box::new(Ctx {
            tape,
            events: Vec::new(),
            hash: 0xcbf2_9ce4_8422_2325,
            trace,
            counters: BTreeMap::new(),
            violations: Vec::new(),
            mode: Mode::Oracle,
            actor: 0,
            sched: Sched::default(),
            ranges: Vec::new(),
            cfg: HookCfg::default(),
            allowed: Vec::new(),
            stray: None,
            allowed_writes_only: false,
            sys: Default::default(),
            seam_events: 0,
            discarded: false,
            harness_error: None,
            op_depth: 0,
            atomic_ids: Vec::new(),
        })
    }

    /// workload choice in `0..n`
    pub fn a(&mut self, n: u32) -> u32 {
        self.tape.draw(n, false)
    }
    /// execution (schedule / fault) choice in `0..n`
    pub fn b(&mut self, n: u32) -> u32 {
        self.tape.draw(n, true)
    }
    /// workload choice from a list
    pub fn pick<T: Copy>(&mut self, xs: &[T]) -> T {
        xs[self.a(xs.len() as u32) as usize]
    }
    /// true with probability num/den, false when the tape says 0
    pub fn a_prob(&mut self, num: u32, den: u32) -> bool {
        let v = self.a(den);
        v != 0 && v <= num
    }
    pub fn b_prob(&mut self, num: u32, den: u32) -> bool {
        let v = self.b(den);
        v != 0 && v <= num
    }

    pub fn count(&mut self, k: &'static str) {
        *self.counters.entry(k).or_insert(0) += 1;
    }
    pub fn count_n(&mut self, k: &'static str, n: u64) {
        *self.counters.entry(k).or_insert(0) += n;
    }

    pub fn ev(&mut self, kind: EvKind, a: u64, b: u64, c: u64) {
        let e = Ev {
            actor: self.actor,
            kind,
            a,
            b,
            c,
        };
        let mut h = self.hash;
        for w in [e.actor as u64, e.kind as u64, a, b, c] {
            h = (h ^ w).wrapping_mul(0x0000_0100_0000_01B3);
            h ^= h >> 29;
        }
        self.hash = h;
        self.events.push(e);
    }

    pub fn violate(&mut self, property: &'static str, class: &str, fingerprint: String, message: String) {
        if self.violations.len() < 8 {
            self.violations.push(Violation {
                property,
                class: class.to_string(),
                fingerprint,
                message,
            });
        }
    }

    pub fn add_range(&mut self, start: usize, len: usize, id: u32, guest: bool) {
        self.ranges.push(Range { start, len, id, guest });
    }
    pub fn clear_ranges(&mut self) {
        self.ranges.clear();
    }
    pub fn remove_range(&mut self, id: u32) {
        self.ranges.retain(|r| r.id != id);
    }

    /// (range id, offset, guest) of an address, if registered
    pub fn classify(&self, addr: usize) -> Option<(u32, usize, bool)> {
        for r in &self.ranges {
            if addr >= r.start && addr - r.start < r.len {
                return Some((r.id, addr - r.start, r.guest));
            }
        }
        None
    }

    fn norm(&self, addr: usize) -> u64 {
        match self.classify(addr) {
            Some((id, off, _)) => ((id as u64 + 1) << 40) | off as u64,
            None => 0,
        }
    }

    fn check_allowed(&mut self, addr: usize, len: usize, what: &'static str) {
        if self.allowed.is_empty() || len == 0 || (self.allowed_writes_only && (what.ends_with("read") || what == "reference")) {
            return;
        }
        if let Some((rid, off, true)) = self.classify(addr) {
            // one-sided: only bytes that are certainly guest RAM of a registered range
            let ok = self.allowed.iter().any(|&(id, lo, hi)| rid == id && off >= lo && off + len <= hi);
            if !ok && self.stray.is_none() {
                self.stray = Some(format!(
                    "{} of {} byte(s) at range {} offset {} outside the bytes the accessor names {:?}",
                    what, len, rid, off, self.allowed
                ));
            }
        }
    }

    // ----- scheduler -------------------------------------------------------------------------

    fn runnable_others(&self) -> Vec<usize> {
        (0..self.sched.st.len())
            .filter(|&i| i != self.sched.cur && self.sched.st[i] == ASt::Runnable)
            .collect()
    }

    /// Pick the actor to run next. `must_switch`: the current actor cannot continue.
    fn pick_next(&mut self, must_switch: bool) -> Option<usize> {
        let others = self.runnable_others();
        let cur = self.sched.cur;
        if must_switch {
            if others.is_empty() {
                return None;
            }
            return Some(match self.sched.policy {
                Policy::Pct(_) => *others.iter().max_by_key(|&&i| self.sched.prio[i]).unwrap(),
                _ => others[self.b(others.len() as u32) as usize],
            });
        }
        if others.is_empty() {
            return Some(cur);
        }
        match self.sched.policy {
            Policy::Uniform => {
                let c = self.b(others.len() as u32 + 1) as usize;
                Some(if c == 0 { cur } else { others[c - 1] })
            }
            Policy::Sticky(num, den) => {
                let c = self.b(den);
                if c < num {
                    Some(cur)
                } else {
                    Some(others[self.b(others.len() as u32) as usize])
                }
            }
            Policy::Pct(_) => {
                let step = self.sched.steps;
                if self.sched.change_pts.contains(&step) {
                    let low = self.sched.prio.iter().copied().min().unwrap_or(0);
                    self.sched.prio[cur] = low.saturating_sub(1);
                }
                let best = *others.iter().max_by_key(|&&i| self.sched.prio[i]).unwrap();
                Some(if self.sched.prio[best] > self.sched.prio[cur] { best } else { cur })
            }
        }
    }
}

/// A scheduling point inside an actor. May suspend the current coroutine.
pub fn yield_point() {
    let c = cx();
    if !c.sched.active || c.mode != Mode::Actor {
        return;
    }
    c.sched.steps += 1;
    if c.sched.steps > c.sched.budget {
        c.sched.over_budget = true;
        std::panic::panic_any(SimPanic::Budget);
    }
    let cur = c.sched.cur;
    let nxt = c.pick_next(false).unwrap_or(cur);
    if nxt != cur {
        c.sched.switches += 1;
        if c.in_op() {
            c.sched.inop_switches += 1;
        }
        c.sched.next = nxt;
        let y = c.sched.yielders[cur];
        let saved_allowed = std::mem::take(&mut c.allowed);
        let saved_actor = c.actor;
        // SAFETY: the yielder belongs to the coroutine we are running on.
        unsafe { (*y).suspend(()) };
        let c = cx();
        c.allowed = saved_allowed;
        c.actor = saved_actor;
    }
}

/// The current actor cannot continue until `obj` is released.
fn block_on(obj: usize) {
    let c = cx();
    if !c.sched.active || c.mode != Mode::Actor {
        std::panic::panic_any(SimPanic::Deadlock);
    }
    let cur = c.sched.cur;
    c.sched.st[cur] = ASt::Blocked(obj);
    c.sched.steps += 1;
    if c.sched.steps > c.sched.budget {
        c.sched.over_budget = true;
        c.sched.st[cur] = ASt::Runnable;
        std::panic::panic_any(SimPanic::Budget);
    }
    let y = c.sched.yielders[cur];
    let saved_actor = c.actor;
    c.sched.switches += 1;
    // SAFETY: see yield_point().
    unsafe { (*y).suspend(()) };
    cx().actor = saved_actor;
}

impl Ctx {
    pub fn in_op(&self) -> bool {
        self.op_depth > 0
    }
    pub fn op_begin(&mut self, idx: u64) {
        self.op_depth += 1;
        self.ev(EvKind::OpStart, idx, 0, 0);
    }
    pub fn op_end(&mut self, idx: u64, res: u64) {
        self.op_depth = self.op_depth.saturating_sub(1);
        self.ev(EvKind::OpEnd, idx, res, 0);
    }
}

thread_local! {
    static STACKS: RefCell<Vec<DefaultStack>> = const { RefCell::new(Vec::new()) };
}

const STACK_SIZE: usize = 512 * 1024;

/// Run the given actor bodies as coroutines under the simulated scheduler until all are done,
/// a deadlock is detected or the step budget is exhausted.
pub fn run_concurrent<'a>(bodies: Vec<Box<dyn FnOnce() + 'a>>) {
    let n = bodies.len();
    {
        let c = cx();
        c.sched.active = true;
        c.sched.st = vec![ASt::Runnable; n];
        c.sched.yielders = vec![std::ptr::null(); n];
        c.sched.steps = 0;
        c.sched.switches = 0;
        c.sched.inop_switches = 0;
        c.sched.deadlock = false;
        c.sched.over_budget = false;
        if let Policy::Pct(d) = c.sched.policy {
            // distinct initial priorities from a tape-chosen permutation
            let mut order: Vec<usize> = (0..n).collect();
            for i in (1..n).rev() {
                let j = c.b(i as u32 + 1) as usize;
                order.swap(i, j);
            }
            c.sched.prio = vec![0; n];
            for (rank, &a) in order.iter().enumerate() {
                c.sched.prio[a] = 1000 + rank as u32;
            }
            c.sched.change_pts = (0..d).map(|_| 1 + c.b(48) as u64).collect();
        }
    }
    let mut cos: Vec<Option<Coroutine<(), (), (), DefaultStack>>> = Vec::with_capacity(n);
    for (i, body) in bodies.into_iter().enumerate() {
        // SAFETY: every coroutine is finished or dropped before this function returns, so the
        // borrowed environment outlives it.
        let body: Box<dyn FnOnce() + 'static> = unsafe { std::mem::transmute(body) };
        let stack = STACKS
            .with(|s| s.borrow_mut().pop())
            .unwrap_or_else(|| DefaultStack::new(STACK_SIZE).expect("coroutine stack"));
        let co = Coroutine::with_stack(stack, move |y: &Yielder<(), ()>, ()| {
            {
                let c = cx();
                c.sched.yielders[i] = y as *const _;
            }
            // a simulated abort (budget, deadlock) raised outside any operation ends this actor; it must
            // not travel through the scheduler's own frames
            if let Err(p) = std::panic::catch_unwind(std::panic::AssertUnwindSafe(body)) {
                if p.downcast_ref::<SimPanic>().is_none() {
                    // a panic of the scenario's own bookkeeping (library panics are caught where the
                    // operation is issued): a harness error, never a verdict
                    let msg = p.downcast_ref::<String>().cloned().or_else(|| p.downcast_ref::<&str>().map(|s| s.to_string())).unwrap_or_else(|| "panic".into());
                    cx().harness_error = Some(format!("an actor body panicked outside an operation: {}", msg));
                }
            }
        });
        cos.push(Some(co));
    }
    // first actor
    let first = {
        let c = cx();
        match c.sched.policy {
            Policy::Pct(_) => (0..n).max_by_key(|&i| c.sched.prio[i]).unwrap_or(0),
            _ => c.b(n as u32) as usize,
        }
    };
    cx().sched.next = first;
    loop {
        let cur = cx().sched.next;
        {
            let c = cx();
            c.sched.cur = cur;
            c.actor = cur as u8;
            c.mode = Mode::Actor;
        }
        let res = cos[cur].as_mut().unwrap().resume(());
        let c = cx();
        c.mode = Mode::Setup;
        if let CoroutineResult::Return(()) = res {
            c.sched.st[cur] = ASt::Done;
        }
        if c.sched.st[cur] == ASt::Runnable && c.sched.next != cur {
            // voluntary switch decided at the yield point
            continue;
        }
        if c.sched.st[cur] == ASt::Runnable {
            continue;
        }
        // current actor is done or blocked: somebody else must run
        c.sched.cur = cur;
        match c.pick_next(true) {
            Some(nx) => c.sched.next = nx,
            None => {
                if c.sched.st.iter().any(|s| matches!(s, ASt::Blocked(_))) {
                    c.sched.deadlock = true;
                }
                break;
            }
        }
    }
    for co in cos.into_iter() {
        let co = co.unwrap();
        if co.done() {
            let st = co.into_stack();
            STACKS.with(|s| {
                let mut s = s.borrow_mut();
                if s.len() < 8 {
                    s.push(st)
                }
            });
        } else {
            // suspended forever (deadlock): unwind it so destructors run
            let c = cx();
            c.mode = Mode::Setup;
            drop(co);
        }
    }
    let c = cx();
    c.sched.active = false;
    c.mode = Mode::Setup;
    c.actor = 0;
}

/// Run `f` as an actor operation: events on, panics caught and classified.
pub enum OpOutcome<T> {
    Ok(T),
    /// the library panicked on its own
    Panic(String),
    /// the simulator raised a fault / budget / deadlock
    Sim(SimPanic),
}

thread_local! {
    static CATCH_DEPTH: Cell<u32> = const { Cell::new(0) };
}

pub fn catch<T>(f: impl FnOnce() -> T) -> OpOutcome<T> {
    CATCH_DEPTH.with(|d| d.set(d.get() + 1));
    let r = std::panic::catch_unwind(std::panic::AssertUnwindSafe(f));
    CATCH_DEPTH.with(|d| d.set(d.get() - 1));
    match r {
        Ok(v) => OpOutcome::Ok(v),
        Err(p) => {
            if let Some(sp) = p.downcast_ref::<SimPanic>() {
                OpOutcome::Sim(sp.clone())
            } else {
                let msg = LAST_PANIC.with(|m| m.borrow().clone());
                OpOutcome::Panic(msg)
            }
        }
    }
}

pub fn install_panic_hook() {
    std::panic::set_hook(Box::new(|info| {
        let msg = if let Some(s) = info.payload().downcast_ref::<&str>() {
            s.to_string()
        } else if let Some(s) = info.payload().downcast_ref::<String>() {
            s.clone()
        } else if info.payload().downcast_ref::<SimPanic>().is_some() {
            "<sim>".to_string()
        } else {
            "<non-string panic>".to_string()
        };
        let loc = info
            .location()
            .map(|l| {
                let f = l.file();
                let f = f.rsplit('/').next().unwrap_or(f);
                format!("{}:{}", f, l.line())
            })
            .unwrap_or_default();
        if CATCH_DEPTH.with(|d| d.get()) == 0 || std::env::var_os("VMSIM_DEBUG_PANIC").is_some() {
            eprintln!("vmsim: uncaught panic: {} at {}", msg, loc);
        }
        LAST_PANIC.with(|m| *m.borrow_mut() = format!("{} at {}", msg, loc));
    }));
}

/// Install a context for the duration of one run.
pub fn with_ctx<R>(ctx: &mut Box<Ctx>, f: impl FnOnce() -> R) -> R {
    let p: *mut Ctx = &mut **ctx;
    CTX.with(|c| c.set(p));
    vm_memory::verif::install(Some(&HOOKS));
    let r = f();
    vm_memory::verif::install(None);
    CTX.with(|c| c.set(std::ptr::null_mut()));
    r
}

/// Temporarily switch mode (e.g. oracle reads through the library).
pub fn in_mode<R>(m: Mode, f: impl FnOnce() -> R) -> R {
    let old = cx().mode;
    cx().mode = m;
    let r = f();
    cx().mode = old;
    r
}

// ---------------------------------------------------------------------------------------------
// Hooks

pub struct Hooks;
pub static HOOKS: Hooks = Hooks;

// SAFETY: only ever used from the single worker thread that installed it.
unsafe impl Sync for Hooks {}

impl Ctx {
    fn mmu_check(&mut self, addr: usize, len: usize, what: &'static str) {
        if let Some(why) = self.sys.mmu_violation(addr, len) {
            self.ev(EvKind::Fault, self.norm(addr), len as u64, 1);
            self.sys.mmu_faults.push(format!("{} of {} byte(s): {}", what, len, why));
            std::panic::panic_any(SimPanic::Fault { addr, len, why });
        }
    }
}

impl SimHooks for Hooks {
    fn atomic(&self, word: usize, op: AtomicOp, arg: u64) {
        let Some(c) = cx_opt() else { return };
        if c.mode == Mode::Oracle {
            return;
        }
        if c.cfg.yield_atomic {
            yield_point();
        }
        let c = cx();
        c.seam_events += 1;
        let n = if c.cfg.anon_atomics {
            0
        } else {
            match c.atomic_ids.iter().position(|&w| w == word) {
                Some(i) => i,
                None => {
                    c.atomic_ids.push(word);
                    c.atomic_ids.len() - 1
                }
            }
        };
        c.ev(EvKind::Atomic, ((1u64) << 40) | n as u64, op as u64, arg);
    }

    fn access(&self, write: bool, addr: usize, width: usize) {
        let Some(c) = cx_opt() else { return };
        if c.mode == Mode::Oracle {
            return;
        }
        c.seam_events += 1;
        let cls = c.classify(addr);
        let guest = matches!(cls, Some((_, _, true)));
        if guest && c.cfg.yield_access {
            yield_point();
        }
        let c = cx();
        if c.sys.mmu_on {
            c.mmu_check(addr, width, if write { "write" } else { "read" });
        }
        if guest {
            c.check_allowed(addr, width, if write { "write" } else { "read" });
            let n = c.norm(addr);
            c.ev(if write { EvKind::Write } else { EvKind::Read }, n, width as u64, 0);
        } else if c.cfg.log_local {
            c.ev(if write { EvKind::Write } else { EvKind::Read }, 0, width as u64, 1 + (addr % 8) as u64);
        }
    }

    fn bulk(&self, dst: *mut u8, src: *const u8, len: usize) -> bool {
        let Some(c) = cx_opt() else { return false };
        if c.mode == Mode::Oracle {
            return false;
        }
        c.seam_events += 1;
        if c.sys.mmu_on {
            c.mmu_check(dst as usize, len, "bulk write");
            c.mmu_check(src as usize, len, "bulk read");
        }
        c.check_allowed(dst as usize, len, "bulk write");
        c.check_allowed(src as usize, len, "bulk read");
        let (nd, ns) = (c.norm(dst as usize), c.norm(src as usize));
        c.ev(EvKind::Bulk, nd, ns, len as u64);
        if c.cfg.tear_bulk && c.mode == Mode::Actor && c.sched.active {
            for i in 0..len {
                yield_point();
                // SAFETY: same contract as the copy_nonoverlapping this replaces.
                unsafe { dst.add(i).write_volatile(src.add(i).read_volatile()) };
                let c = cx();
                c.ev(EvKind::BulkByte, if nd == 0 { 0 } else { nd + i as u64 }, if ns == 0 { 0 } else { ns + i as u64 }, 1);
            }
            return true;
        }
        false
    }

    fn copy(&self, src: *const u8, dst: *mut u8, len: usize) {
        let Some(c) = cx_opt() else { return };
        if c.mode == Mode::Oracle {
            return;
        }
        c.seam_events += 1;
        if c.sys.mmu_on {
            c.mmu_check(dst as usize, len, "slice-to-slice copy (destination)");
            c.mmu_check(src as usize, len, "slice-to-slice copy (source)");
        }
        c.check_allowed(dst as usize, len, "copy write");
        c.check_allowed(src as usize, len, "copy read");
        let (nd, ns) = (c.norm(dst as usize), c.norm(src as usize));
        c.ev(EvKind::Copy, nd, ns, len as u64);
    }

    fn touch(&self, addr: usize, len: usize, write: bool) {
        let Some(c) = cx_opt() else { return };
        if c.mode == Mode::Oracle {
            return;
        }
        c.seam_events += 1;
        let guest = matches!(c.classify(addr), Some((_, _, true)));
        if guest && c.cfg.yield_access {
            yield_point();
        }
        let c = cx();
        if c.sys.mmu_on {
            c.mmu_check(addr, len, "unguarded dereference");
        }
        if guest {
            c.check_allowed(addr, len, "reference");
        }
        let n = c.norm(addr);
        c.ev(EvKind::Touch, n, len as u64, write as u64);
    }

    fn swap_point(&self, p: SwapPoint, obj: usize) {
        let Some(c) = cx_opt() else { return };
        if c.mode == Mode::Oracle {
            if p == SwapPoint::LockBlocked {
                std::panic::panic_any(SimPanic::Deadlock);
            }
            return;
        }
        c.seam_events += 1;
        let oid = c.norm(obj);
        match p {
            SwapPoint::BeforeLoad | SwapPoint::BeforeStore | SwapPoint::LockAttempt => {
                if c.cfg.yield_swap {
                    yield_point();
                }
                cx().ev(EvKind::Swap, p as u64, oid, 0);
            }
            SwapPoint::Locked => {
                c.ev(EvKind::Swap, p as u64, oid, 0);
            }
            SwapPoint::LockBlocked => {
                c.ev(EvKind::Swap, p as u64, oid, 0);
                c.count("probe.lock_contended");
                block_on(obj);
            }
            SwapPoint::Unlocked => {
                c.ev(EvKind::Swap, p as u64, oid, 0);
                for s in c.sched.st.iter_mut() {
                    if *s == ASt::Blocked(obj) {
                        *s = ASt::Runnable;
                    }
                }
                // never switch context in the middle of an unwinding panic (poisoning release)
                if c.cfg.yield_swap && !std::thread::panicking() {
                    yield_point();
                }
            }
        }
    }

    unsafe fn mmap(
        &self,
        addr: *mut libc::c_void,
        len: libc::size_t,
        prot: libc::c_int,
        flags: libc::c_int,
        fd: libc::c_int,
        offset: libc::off_t,
    ) -> *mut libc::c_void {
        crate::sys::hook_mmap(addr, len, prot, flags, fd, offset)
    }

    unsafe fn munmap(&self, addr: *mut libc::c_void, len: libc::size_t) -> libc::c_int {
        crate::sys::hook_munmap(addr, len)
    }

    unsafe fn read(&self, fd: libc::c_int, buf: *mut libc::c_void, count: libc::size_t) -> libc::ssize_t {
        crate::sys::hook_read(fd, buf, count)
    }

    unsafe fn write(&self, fd: libc::c_int, buf: *const libc::c_void, count: libc::size_t) -> libc::ssize_t {
        crate::sys::hook_write(fd, buf, count)
    }

    unsafe fn ioctl(&self, fd: i32, req: u64, arg: *mut u8, arg_len: usize) -> Option<i32> {
        crate::sys::hook_ioctl(fd, req, arg, arg_len)
    }
}

pub fn fmt_ev(e: &Ev) -> String {
    let n = |v: u64| -> String {
        if v >> 40 == 0 {
            "local".to_string()
        } else {
            format!("r{}+{}", (v >> 40) - 1, v & 0xff_ffff_ffff)
        }
    };
    match e.kind {
        EvKind::OpStart => format!("a{} op#{} start", e.actor, e.a),
        EvKind::OpEnd => format!("a{} op#{} end res={}", e.actor, e.a, e.b),
        EvKind::Atomic => {
            let op = ["load", "store", "fetch_or", "fetch_and"][e.b as usize & 3];
            format!("a{} {} {} arg={:#x}", e.actor, op, n(e.a), e.c)
        }
        EvKind::Read => format!("a{} read{} {} {}", e.actor, e.b * 8, n(e.a), if e.c > 0 { format!("(addr%8={})", e.c - 1) } else { String::new() }),
        EvKind::Write => format!("a{} write{} {} {}", e.actor, e.b * 8, n(e.a), if e.c > 0 { format!("(addr%8={})", e.c - 1) } else { String::new() }),
        EvKind::Bulk => format!("a{} bulk-copy dst={} src={} len={}", e.actor, n(e.a), n(e.b), e.c),
        EvKind::BulkByte => format!("a{} bulk-byte dst={} src={}", e.actor, n(e.a), n(e.b)),
        EvKind::Copy => format!("a{} memmove dst={} src={} len={}", e.actor, n(e.a), n(e.b), e.c),
        EvKind::Touch => format!("a{} deref {} len={} write={}", e.actor, n(e.a), e.b, e.c),
        EvKind::Swap => {
            let p = ["before-load", "before-store", "lock-attempt", "lock-blocked", "locked", "unlocked"][e.a as usize % 6];
            format!("a{} {} obj={}", e.actor, p, n(e.b))
        }
        EvKind::Sys => format!("a{} sys kind={} a={} b={}", e.actor, e.a, e.b as i64, e.c as i64),
        EvKind::Fault => format!("a{} FAULT {} len={}", e.actor, n(e.a), e.b),
        EvKind::Sched => format!("sched a={} b={}", e.a, e.b),
        EvKind::Note => format!("a{} note {} {} {}", e.actor, e.a, e.b, e.c),
    }
}
