#!/usr/bin/env python3
"""Regenerate MANIFEST.json from the table below (kept in one place so it stays valid)."""
import json, os, subprocess
ROOT = os.path.dirname(os.path.dirname(os.path.abspath(__file__)))
TECH = "deterministic simulation: seeded schedules + fault injection at cfg(vm_memory_verif) seams; "
NA = {
 "C01": "pure bounds/alignment arithmetic per request on immutable accessor values: no schedule, clock, environment call, lifetime or evolving state for a simulator to own (DESIGN.md §5)",
 "C02": "every query is a pure function of an immutable layout and an address; nothing a simulator controls can change an answer (DESIGN.md §5)",
 "C07": "totality of each single request over the full integer ranges; no state, environment or schedule involved (DESIGN.md §5)",
 "C19": "pure 64-bit arithmetic (DESIGN.md §5)",
 "C20": "pure value conversion (DESIGN.md §5)",
}
CLAIMED = json.load(open(os.path.join(ROOT, "tools", "claimed.json")))
PLANNED = ["C03","C04","C05","C06","C08","C09","C10","C11","C12","C13","C14","C15","C16","C17","C18"]
hooks = subprocess.run(["git","-C","/repo","log","--format=%h %s"],capture_output=True,text=True).stdout.splitlines()
hook_commits = [l.split()[0] for l in hooks if "verif hooks:" in l][::-1]
checks = []
for pid in sorted(CLAIMED):
    c = CLAIMED[pid]
    checks.append({
        "property_id": pid,
        "quick_cmd": f"./check {pid} quick",
        "thorough_cmd": f"./check {pid} thorough",
        "evidence_file": f"/verif/evidence/{pid}.json",
        "replay_cmd_template": "./check --replay {path}",
        "engine": "vmsim",
        "level_claimed": {"category": "exploration", "text": c["text"], "design_ref": c["design_ref"]},
        "level_note": c["note"],
        "technique": TECH + c["technique"],
    })
na = [{"property_id": k, "reason": v} for k, v in NA.items()]
na += [{"property_id": k, "reason": "claimed by the design (DESIGN.md §4) but its check is not built yet in this commit"} for k in PLANNED if k not in CLAIMED]
m = {
 "version": 1,
 "setup_cmd": "./check --setup",
 "hooks": {"guard": "vm_memory_verif", "enable": "RUSTFLAGS=\"--cfg vm_memory_verif\" (set by ./check; the simulator has a path dependency on /repo, whose Cargo.toml and Cargo.lock are untouched)",
           "baseline_off_cmd": "cd /repo && cargo test --workspace --no-fail-fast --offline",
           "source_commits": hook_commits, "add_only": True},
 "engines": [{"name": "vmsim", "path": "/verif/sim", "serves_properties": sorted(CLAIMED),
              "kind_free_text": "deterministic simulator: one choice tape per run derived from VERIF_SEED, coroutine scheduler (corosensei) that owns every context switch, fault injector at the cfg(vm_memory_verif) seams (atomics, volatile accesses, ArcSwap/mutex, mmap/munmap/read/write, Xen ioctls), reference-model / history / access-shape oracles, tape shrinker, replay files; 16 worker processes"}],
 "checks": checks,
 "not_applicable": na,
 "notes": "All checks: exit 0 = property held on everything explored; exit 1 + VIOLATION line = violation confirmed by replaying the (minimised) tape in a fresh process; exit 2 = harness error (build failure, nondeterministic replay, vacuous batch), never accompanied by a VIOLATION line. VERIF_SEED selects the base seed (default 20261002).",
}
json.dump(m, open(os.path.join(ROOT, "MANIFEST.json"), "w"), indent=1)
print("claimed:", sorted(CLAIMED))
