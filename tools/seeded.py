#!/usr/bin/env python3
"""Run the checks against a seeded change: apply <dir>/patch.diff to /repo, run the quick check of
the property it targets (and optionally others), undo the change. usage: tools/seeded.py <dir> [prop ...]"""
import json, os, subprocess, sys, time, re
ROOT = os.path.dirname(os.path.dirname(os.path.abspath(__file__)))
d = sys.argv[1]
props = sys.argv[2:]
meta = {}
mp = os.path.join(d, "meta.json")
if os.path.exists(mp):
    meta = json.load(open(mp))
if not props:
    props = [meta["property"]]
assert subprocess.run(["git", "-C", "/repo", "status", "--porcelain", "--untracked-files=no"], capture_output=True, text=True).stdout.strip() == "", "repo dirty"
subprocess.run(["git", "-C", "/repo", "apply", os.path.join(os.path.abspath(d), "patch.diff")], check=True)
out = {}
try:
    for p in props:
        t0 = time.time()
        env = dict(os.environ); env.setdefault("VERIF_MAX_S", "120"); env.setdefault("VERIF_SHRINK_S", "3")
        env.setdefault("VMSIM_HANG_S", "60")
        try:
            r = subprocess.run([os.path.join(ROOT, "check"), p, "quick"], capture_output=True, text=True, env=env, timeout=1500)
        except subprocess.TimeoutExpired:
            out[p] = {"exit": -1, "classes": ["timeout"], "wall_s": 1500, "first": "timeout"}
            print(p, json.dumps(out[p]))
            continue
        classes = sorted(set(re.findall(r"^\s+(C\d+/\S+)", r.stderr, re.M)))
        out[p] = {"exit": r.returncode, "classes": classes, "wall_s": round(time.time() - t0, 1), "first": (r.stderr.strip().splitlines() or [""])[0][:400]}
        print(p, json.dumps(out[p]))
finally:
    subprocess.run(["git", "-C", "/repo", "checkout", "--", "."], check=True)
