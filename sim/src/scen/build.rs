//! S-build: region construction accepts exactly the safe requests and builds what was asked (C15).
//! Unix build: MmapRegion::build / build_raw / from_file / new and GuestRegionMmap::new.
//! Xen build: MmapRegion::from_range over every Xen flag combination, with the emulated device.

use super::{RunInfo, Scenario};
use crate::json::J;
use crate::sim::{catch, cx, in_mode, Mode, OpOutcome};
use crate::world::{raw_read, raw_write};
use std::fs::File;
use std::os::fd::{AsRawFd, FromRawFd};
use vm_memory::{Bytes, FileOffset, GuestAddress, GuestRegionMmap, MmapRegion, VolatileMemory};

pub struct Build;
pub static BUILD: Build = Build;

const PAGE: usize = 4096;

fn gen_size() -> usize {
    let c = cx();
    match c.a(9) {
        0 => 0,
        1 => 1,
        2 => 4095,
        3 => 4096,
        4 => 4097,
        5 => 8192,
        // (the GiB sizes are never touched: address space only)
        6 => [1 << 20, 2 << 20, (2 << 20) + 1, (2 << 20) + 4096, (2 << 20) + 4097, (4 << 20) - 1, (3 << 20) + 100, 1 << 30, 2 << 30, (1 << 30) + 4096][c.a(10) as usize],
        _ => 1 + c.a(3 * 4096) as usize,
    }
}

fn pipe_file() -> (File, File) {
    let mut fds = [0i32; 2];
    // SAFETY: plain syscall.
    unsafe {
        assert_eq!(libc::pipe2(fds.as_mut_ptr(), libc::O_CLOEXEC), 0);
        (File::from_raw_fd(fds[0]), File::from_raw_fd(fds[1]))
    }
}

/// (file, its length, seekable)
fn gen_file(offset: u64, size: usize) -> (File, u64, bool) {
    let c = cx();
    if c.a(10) == 0 {
        let (r, _w) = pipe_file();
        return (r, 0, false);
    }
    let end = offset.saturating_add(size as u64);
    let len = match c.a(6) {
        0 => end.saturating_sub(1),
        1 => end,
        2 => end.saturating_add(1),
        3 => 0,
        4 => end.saturating_add(4096),
        _ => c.a(3 * 4096) as u64,
    }
    .min(1 << 24);
    (crate::gmworld::memfd(len), len, true)
}

fn gen_offset(size: usize) -> u64 {
    let c = cx();
    match c.a(9) {
        0 | 1 => 0,
        2 => 4096,
        3 => 8192,
        4 => 100,
        5 => [u64::MAX, 1 << 63, (1 << 63) - 4096, i64::MAX as u64][c.a(4) as usize],
        6 => (u64::MAX - size as u64).wrapping_add(1),
        7 => u64::MAX - size as u64,
        _ => 4096 * c.a(4) as u64,
    }
}

fn byte_at(i: u64) -> u8 {
    (i as u8).wrapping_mul(11).wrapping_add(5)
}

fn fill_file(f: &File, len: u64) {
    let data: Vec<u8> = (0..len.min(1 << 16)).map(byte_at).collect();
    // SAFETY: pwrite of our own buffer.
    unsafe { libc::pwrite(f.as_raw_fd(), data.as_ptr() as *const libc::c_void, data.len(), 0) };
}

/// byte i of a shared file-backed region is byte offset+i of the file, in both directions
fn check_coherence(region_ptr: *mut u8, size: usize, f: &File, offset: u64, write_through: impl Fn(&[u8], usize) -> bool, line: &str) {
    let n = size.min(300);
    if n == 0 {
        return;
    }
    let got = raw_read(region_ptr, n);
    let want: Vec<u8> = (0..n as u64).map(|i| byte_at(offset + i)).collect();
    if got != want {
        cx().violate("C15", "C15/coherence", "file -> region".into(), format!("{}: the first {} region bytes are not the file bytes at offset {}", line, n, offset));
        return;
    }
    // file -> region after construction
    let patch = [0xD1u8, 0xD2, 0xD3];
    let at = (size - 1).min(5000);
    let k = patch.len().min(size - at);
    // SAFETY: pwrite of our own buffer.
    unsafe { libc::pwrite(f.as_raw_fd(), patch.as_ptr() as *const libc::c_void, k, (offset + at as u64) as libc::off_t) };
    if raw_read(unsafe { region_ptr.add(at) }, k) != patch[..k] {
        cx().violate("C15", "C15/coherence", "file -> region".into(), format!("{}: a byte written to the file at offset {}+{} does not show in the region", line, offset, at));
    }
    // region -> file
    let data = [0x7Eu8, 0x7D];
    let at2 = size / 2;
    let k2 = data.len().min(size - at2);
    if write_through(&data[..k2], at2) {
        let mut back = [0u8; 2];
        // SAFETY: pread into our own buffer.
        unsafe { libc::pread(f.as_raw_fd(), back.as_mut_ptr() as *mut libc::c_void, k2, (offset + at2 as u64) as libc::off_t) };
        if back[..k2] != data[..k2] {
            cx().violate("C15", "C15/coherence", "region -> file".into(), format!("{}: bytes written through the region at {} do not show in the file at offset {}+{}", line, at2, offset, at2));
        }
    }
}

impl Scenario for Build {
    fn name(&self) -> &'static str {
        "S-build"
    }

    fn run(&self) -> RunInfo {
        cx().mode = Mode::Setup;
        let n = 1 + cx().a(6) as usize;
        let mut log = Vec::new();
        let (mut acc, mut rej) = (0u32, 0u32);
        for step in 0..n {
            if !cx().violations.is_empty() {
                break;
            }
            let live_before = cx().sys.live_count();
            #[cfg(feature = "xen")]
            let grants_before = cx().sys.xen.as_ref().map(|x| x.live_grants()).unwrap_or_default();
            cx().mode = Mode::Actor;
            cx().op_begin(step as u64);
            let (desc, accepted) = one_request(step);
            cx().op_end(step as u64, 0);
            cx().mode = Mode::Setup;
            cx().sys.fail_mmap_at = None;
            if accepted {
                acc += 1
            } else {
                rej += 1
            }
            log.push(desc);
            let line = log.last().unwrap().clone();
            // whatever happened, the request is over and its region dropped: nothing may be left
            if cx().sys.live_count() != live_before {
                cx().violate("C15", "C15/left-mapped", if accepted { "mapping left after dropping an accepted region".into() } else { "rejected request left a mapping behind".to_string() }, format!("step {} {}: {} mapping(s) live, {} before the request", step, line, cx().sys.live_count(), live_before));
                cx().violate("C12", "C12/leak", if accepted { "mapping left after dropping an accepted region".into() } else { "rejected request left a mapping behind".to_string() }, format!("step {} {}: {} mapping(s) live, {} before the request: {:?}", step, line, cx().sys.live_count(), live_before, cx().sys.live().iter().map(|m| (m.origin, m.len)).collect::<Vec<_>>()));
            }
            #[cfg(feature = "xen")]
            {
                let g = cx().sys.xen.as_ref().map(|x| x.live_grants()).unwrap_or_default();
                if g != grants_before {
                    cx().violate("C15", "C15/left-granted", if accepted { "grant left after dropping an accepted region".into() } else { "rejected request left grant references mapped".to_string() }, format!("step {} {}: live grants {:x?}, before the request {:x?}", step, line, g, grants_before));
                }
                if let Some(x) = cx().sys.xen.as_mut() {
                    for a in x.anomalies.drain(..).collect::<Vec<_>>() {
                        cx().violate("C15", "C15/device", "device protocol".into(), format!("step {} {}: {}", step, line, a));
                    }
                }
            }
            if cx().sys.map_fixed_seen {
                cx().violate("C15", "C15/map-fixed", "MAP_FIXED reached mmap".into(), format!("step {} {}: a MAP_FIXED request reached the mmap seam", step, line));
            }
            for a in std::mem::take(&mut cx().sys.anomalies) {
                if !a.contains("MAP_FIXED") {
                    cx().violate("C15", "C15/address-space", "address space anomaly".into(), format!("step {} {}: {}", step, line, a));
                    if a.contains("second munmap") || a.contains("never mapped") || a.contains("length") {
                        cx().violate("C12", if a.contains("second munmap") { "C12/double-unmap" } else if a.contains("length") { "C12/wrong-length" } else { "C12/foreign-munmap" }, format!("construction request: {}", a.split(" #").next().unwrap_or("")), format!("step {} {}: {}", step, line, a));
                    }
                }
            }
        }
        let desc = if cx().trace { Some(J::obj().set("build", J::s(crate::ctl::build_name())).set("requests", J::strs(log.clone()))) } else { None };
        #[cfg(feature = "xen")]
        {
            cx().sys.xen = None;
        }
        cx().mode = Mode::Oracle;
        RunInfo { nontrivial: acc > 0 && rej > 0, desc, cell: None }
    }
}

fn verdict(what: &str, got: &str, want: &str, line: &str) {
    if got != want {
        cx().violate("C15", "C15/verdict", format!("{}: expected {}", what, want), format!("{}: the request was answered with {}; the statement requires {}", line, got, want));
    }
}

// ---------------------------------------------------------------------------------------------
#[cfg(not(feature = "xen"))]
fn one_request(step: usize) -> (String, bool) {
    use vm_memory::mmap::MmapRegionError as E;
    let ename = |e: &E| -> &'static str {
        match e {
            E::InvalidOffsetLength => "InvalidOffsetLength",
            E::InvalidPointer => "InvalidPointer",
            E::MapFixed => "MapFixed",
            E::MappingOverlap => "MappingOverlap",
            E::MappingPastEof => "MappingPastEof",
            E::Mmap(_) => "Mmap",
            E::SeekEnd(_) => "SeekEnd",
            E::SeekStart(_) => "SeekStart",
        }
    };
    let c = cx();
    let size = gen_size();
    let form = c.a(8);
    let prot = [libc::PROT_READ | libc::PROT_WRITE, libc::PROT_READ | libc::PROT_WRITE, libc::PROT_READ, libc::PROT_NONE][c.a(4) as usize];
    let with_file = c.a(2) == 0;
    let mut flags = if with_file { [libc::MAP_SHARED, libc::MAP_SHARED | libc::MAP_NORESERVE, libc::MAP_PRIVATE, 0, libc::MAP_SHARED | libc::MAP_PRIVATE, libc::MAP_PRIVATE | libc::MAP_ANONYMOUS, libc::MAP_SHARED | libc::MAP_ANONYMOUS][c.a(7) as usize] } else { [libc::MAP_PRIVATE | libc::MAP_ANONYMOUS, libc::MAP_PRIVATE | libc::MAP_ANONYMOUS | libc::MAP_NORESERVE, libc::MAP_SHARED | libc::MAP_ANONYMOUS, libc::MAP_ANONYMOUS, libc::MAP_PRIVATE][c.a(5) as usize] };
    if c.a(6) == 0 {
        flags |= libc::MAP_FIXED;
    }
    if c.a(12) == 0 {
        flags |= libc::MAP_FIXED_NOREPLACE;
    }
    let inject = c.a(10) == 0;
    let base = match c.a(6) {
        0 => u64::MAX - size as u64,
        1 => (u64::MAX - size as u64).wrapping_add(1),
        2 => u64::MAX,
        3 => 0,
        _ => 0x1000 * c.a(1000) as u64,
    };
    match form {
        // ---- externally provided mapping ------------------------------------------------------
        0 | 1 => {
            let ext_len = (size.max(1)).div_ceil(PAGE) * PAGE + PAGE;
            // SAFETY: plain anonymous mapping of our own, made with the real libc.
            let p = unsafe { libc::mmap(std::ptr::null_mut(), ext_len, libc::PROT_READ | libc::PROT_WRITE, libc::MAP_PRIVATE | libc::MAP_ANONYMOUS, -1, 0) } as *mut u8;
            let mis = [0usize, 0, 1, 8, 2048, 4095][cx().a(6) as usize];
            let ptr = unsafe { p.add(mis) };
            let desc = format!("build_raw(ptr page+{}, size {}, prot {:#x}, flags {:#x})", mis, size, prot, flags);
            // SAFETY: the mapping exists for the duration of the request.
            let via_builder = cx().a(2) == 0;
            let desc = if via_builder { format!("MmapRegionBuilder.with_raw_mmap_pointer: {}", desc) } else { desc };
            // SAFETY: the mapping exists for the duration of the request.
            // the builder may also be told which file the external mapping belongs to, in either order
            let ext_file = if via_builder && cx().a(2) == 0 { Some((crate::gmworld::memfd(size as u64 + 4096), 4096 * cx().a(2) as u64, cx().a(2) == 0)) } else { None };
            let desc = match &ext_file {
                Some((_, off, first)) => format!("{} with_file_offset(offset {:#x}, {} the pointer)", desc, off, if *first { "before" } else { "after" }),
                None => desc,
            };
            let r = if via_builder {
                catch(|| {
                    let mut b = vm_memory::mmap::MmapRegionBuilder::<()>::new(size).with_mmap_prot(prot).with_mmap_flags(flags);
                    match &ext_file {
                        Some((f, off, true)) => {
                            b = b.with_file_offset(FileOffset::new(f.try_clone().expect("dup"), *off));
                            // SAFETY: the mapping exists for the duration of the request.
                            b = unsafe { b.with_raw_mmap_pointer(ptr) };
                        }
                        Some((f, off, false)) => {
                            // SAFETY: as above.
                            b = unsafe { b.with_raw_mmap_pointer(ptr) };
                            b = b.with_file_offset(FileOffset::new(f.try_clone().expect("dup"), *off));
                        }
                        None => {
                            // SAFETY: as above.
                            b = unsafe { b.with_raw_mmap_pointer(ptr) };
                        }
                    }
                    b.build()
                })
            } else {
                // SAFETY: the mapping exists for the duration of the request.
                catch(|| unsafe { MmapRegion::<()>::build_raw(ptr, size, prot, flags) })
            };
            let accepted = match r {
                OpOutcome::Ok(Ok(reg)) => {
                    verdict("build_raw", "a region", if mis == 0 { "a region" } else { "InvalidPointer" }, &desc);
                    let foff_ok = match (&ext_file, reg.file_offset()) {
                        (None, None) => true,
                        (Some((_, off, _)), Some(fo)) => fo.start() == *off,
                        _ => false,
                    };
                    if reg.size() != size || reg.prot() != prot || reg.flags() != flags || reg.owned() || !foff_ok || reg.as_ptr() != ptr {
                        cx().violate("C15", "C15/attributes", "build_raw attributes".into(), format!("{}: region reports size {} prot {:#x} flags {:#x} owned {} file offset {:?}", desc, reg.size(), reg.prot(), reg.flags(), reg.owned(), reg.file_offset().map(|f| f.start())));
                    }
                    let gr = catch(|| GuestRegionMmap::new(reg, GuestAddress(base)));
                    guest_region_verdict(gr, base, size, &desc);
                    true
                }
                OpOutcome::Ok(Err(e)) => {
                    verdict("build_raw", ename(&e), if mis == 0 { "a region" } else { "InvalidPointer" }, &desc);
                    false
                }
                OpOutcome::Panic(m) => {
                    cx().violate("C15", "C15/panic", "panic in build_raw".into(), format!("{}: {}", desc, m));
                    false
                }
                OpOutcome::Sim(_) => false,
            };
            // the external mapping must still be ours to unmap
            // SAFETY: our own mapping.
            let rc = unsafe { libc::munmap(p as *mut libc::c_void, ext_len) };
            if rc != 0 {
                cx().violate("C15", "C15/address-space", "external mapping gone".into(), format!("{}: the externally provided mapping was already unmapped", desc));
            }
            (desc, accepted)
        }
        // ---- library-made mapping ----------------------------------------------------------------
        _ => {
            let offset = if with_file { gen_offset(size) } else { 0 };
            let file = if with_file { Some(gen_file(offset, size)) } else { None };
            if let Some((f, len, true)) = &file {
                fill_file(f, *len);
            }
            let fo = file.as_ref().map(|(f, _, _)| FileOffset::new(f.try_clone().expect("dup"), offset));
            // now and then the file changes its length after the FileOffset was made: what counts is the
            // file as it is when the region is built
            let mut file = file;
            let mut resized = false;
            if let Some((f, len, true)) = &mut file {
                if cx().a(5) == 0 {
                    let end = offset.saturating_add(size as u64);
                    let newlen = match cx().a(5) {
                        0 => end.saturating_sub(1),
                        1 => end,
                        2 => end.saturating_add(4096),
                        3 => 0,
                        _ => cx().a(3 * 4096) as u64,
                    }
                    .min(1 << 24);
                    // SAFETY: plain syscall on our own descriptor.
                    if unsafe { libc::ftruncate(f.as_raw_fd(), newlen as libc::off_t) } == 0 {
                        if newlen != *len {
                            resized = true;
                            cx().count("probe.file_resized_after_the_file_offset_was_made");
                        }
                        *len = newlen;
                        fill_file(f, newlen);
                    }
                }
            }
            let desc = format!("{}(size {}, prot {:#x}, flags {:#x}{}){}", ["build", "build", "build", "from_file", "new", "build"][(form as usize - 2).min(5)], size, prot, flags, match &file { Some((_, len, seek)) => format!(", file of {} bytes{} at offset {:#x}", len, if *seek { "" } else { " (unseekable)" }, offset), None => String::new() }, if inject { " [mmap made to fail]" } else { "" });
            let desc = if resized { format!("{} [file resized after the FileOffset was made]", desc) } else { desc };
            if inject {
                cx().sys.fail_mmap_at = Some((cx().sys.mmap_calls, [libc::ENOMEM, libc::EACCES, libc::EAGAIN][cx().a(3) as usize]));
            }
            let calls_before = cx().sys.mmap_calls;
            // a third of the `build` requests go through the builder, half of those with a hugetlbfs hint
            let builder_opts: Option<Option<bool>> = if cx().a(3) == 0 { Some(if cx().a(2) == 0 { Some(cx().a(2) == 0) } else { None }) } else { None };
            let desc = match builder_opts {
                Some(h) if !matches!(form, 5 if with_file) && !matches!(form, 6 if !with_file) => format!("MmapRegionBuilder(hugetlbfs {:?}): {}", h, desc),
                _ => desc,
            };
            let (eff_prot, eff_flags);
            let r = match form {
                5 if with_file => {
                    eff_prot = libc::PROT_READ | libc::PROT_WRITE;
                    eff_flags = libc::MAP_NORESERVE | libc::MAP_SHARED;
                    catch(|| MmapRegion::<()>::from_file(fo.clone().unwrap(), size))
                }
                6 if !with_file => {
                    eff_prot = libc::PROT_READ | libc::PROT_WRITE;
                    eff_flags = libc::MAP_ANONYMOUS | libc::MAP_NORESERVE | libc::MAP_PRIVATE;
                    catch(|| MmapRegion::<()>::new(size))
                }
                _ if builder_opts.is_some() => {
                    eff_prot = prot;
                    eff_flags = flags;
                    catch(|| {
                        let mut b = vm_memory::mmap::MmapRegionBuilder::<()>::new(size).with_mmap_prot(prot).with_mmap_flags(flags);
                        if let Some(f) = fo.clone() {
                            b = b.with_file_offset(f);
                        }
                        if let Some(Some(h)) = builder_opts {
                            b = b.with_hugetlbfs(h);
                        }
                        b.build()
                    })
                }
                _ => {
                    eff_prot = prot;
                    eff_flags = flags;
                    catch(|| MmapRegion::<()>::build(fo.clone(), size, prot, flags))
                }
            };
            // the statement's verdict, in the order the checks are documented
            let want: &str = if eff_flags & (libc::MAP_FIXED | libc::MAP_FIXED_NOREPLACE) != 0 {
                "MapFixed"
            } else if let Some((_, len, seek)) = &file {
                match offset.checked_add(size as u64) {
                    None => "InvalidOffsetLength",
                    Some(_) if !*seek => "SeekEnd",
                    Some(end) if *len < end => "MappingPastEof",
                    _ => "kernel",
                }
            } else {
                "kernel"
            };
            let reached_mmap = cx().sys.mmap_calls > calls_before;
            let mapped = cx().sys.live_count();
            let accepted = match r {
                OpOutcome::Ok(Ok(reg)) => {
                    if want != "kernel" {
                        verdict("construction", "a region", want, &desc);
                    } else if inject {
                        verdict("construction", "a region", "Mmap (mmap failed)", &desc);
                    }
                    let foff = reg.file_offset().map(|f| (f.start(), f.file().as_raw_fd()));
                    let want_foff = fo.as_ref().map(|f| (f.start(), f.file().as_raw_fd()));
                    if let Some(Some(h)) = builder_opts {
                        if desc.starts_with("MmapRegionBuilder") && reg.is_hugetlbfs() != Some(h) {
                            cx().violate("C15", "C15/attributes", "hugetlbfs hint of the built region".into(), format!("{}: region reports is_hugetlbfs() = {:?}", desc, reg.is_hugetlbfs()));
                        }
                    }
                    if !cx().sys.covered(reg.as_ptr() as usize, size) {
                        cx().violate("C12", "C12/early-unmap", "part of a live region is not mapped".into(), format!("{}: the region is alive but not every page of its {} bytes is mapped", desc, size));
                    }
                    if reg.size() != size || reg.prot() != eff_prot || reg.flags() != eff_flags || !reg.owned() || foff != want_foff {
                        cx().violate("C15", "C15/attributes", "attributes of the built region".into(), format!("{}: region reports size {} prot {:#x} flags {:#x} owned {} file offset {:?}", desc, reg.size(), reg.prot(), reg.flags(), reg.owned(), foff));
                    }
                    match cx().sys.find_live(reg.as_ptr() as usize) {
                        Some(m) if m.addr == reg.as_ptr() as usize && m.len.div_ceil(PAGE) == size.div_ceil(PAGE) && m.prot == eff_prot && m.flags == eff_flags && (!with_file || m.off as u64 == offset) => {}
                        other => cx().violate("C15", "C15/attributes", "mapping differs from the request".into(), format!("{}: the mapping behind the region is {:?}", desc, other.map(|m| (m.len, m.prot, m.flags, m.off)))),
                    }
                    if let (Some((f, len, true)), true) = (&file, eff_flags & libc::MAP_SHARED != 0 && eff_flags & libc::MAP_ANONYMOUS == 0 && eff_prot == libc::PROT_READ | libc::PROT_WRITE && eff_flags & libc::MAP_PRIVATE == 0) {
                        if *len >= offset + size as u64 && offset + (size as u64) < (1 << 16) {
                            let rr = &reg;
                            check_coherence(reg.as_ptr(), size, f, offset, |d, at| rr.as_volatile_slice().write(d, at).is_ok(), &desc);
                        }
                    }
                    let gr = catch(|| GuestRegionMmap::new(reg, GuestAddress(base)));
                    guest_region_verdict(gr, base, size, &desc);
                    true
                }
                OpOutcome::Ok(Err(e)) => {
                    let got = ename(&e);
                    if want != "kernel" {
                        verdict("construction", got, want, &desc);
                        if reached_mmap {
                            cx().violate("C15", "C15/verdict", "mmap attempted for an unsafe request".into(), format!("{}: the request must be refused with {} before any mmap, but mmap was called", desc, want));
                        }
                    } else {
                        // the kernel (or the injector) decides: an error must be the mmap error and the seam must have seen it fail
                        verdict("construction", got, "Mmap", &desc);
                        if !reached_mmap || mapped != cx().sys.live_count() {
                            cx().violate("C15", "C15/verdict", "mmap error without a failed mmap".into(), format!("{}: answered {} but the mmap seam saw no failing call", desc, got));
                        }
                    }
                    false
                }
                OpOutcome::Panic(m) => {
                    cx().violate("C15", "C15/panic", "panic in region construction".into(), format!("{}: {}", desc, m));
                    false
                }
                OpOutcome::Sim(_) => false,
            };
            let _ = step;
            (desc, accepted)
        }
    }
}

#[cfg(not(feature = "xen"))]
fn guest_region_verdict(gr: OpOutcome<Result<GuestRegionMmap<()>, vm_memory::mmap::Error>>, base: u64, size: usize, desc: &str) {
    let overflow = base.checked_add(size as u64).is_none();
    match gr {
        OpOutcome::Ok(Ok(g)) => {
            use vm_memory::GuestMemoryRegion;
            if overflow {
                verdict("GuestRegionMmap::new", "a guest region", "InvalidGuestRegion", &format!("{} at guest base {:#x}", desc, base));
            } else if g.start_addr().0 != base || g.len() != size as u64 {
                cx().violate("C15", "C15/attributes", "guest region attributes".into(), format!("{}: guest region reports [{:#x},+{})", desc, g.start_addr().0, g.len()));
            }
        }
        OpOutcome::Ok(Err(e)) => {
            if !overflow || !matches!(e, vm_memory::mmap::Error::InvalidGuestRegion) {
                verdict("GuestRegionMmap::new", &format!("{:?}", e), if overflow { "InvalidGuestRegion" } else { "a guest region" }, &format!("{} at guest base {:#x}", desc, base));
            }
        }
        OpOutcome::Panic(m) => cx().violate("C15", "C15/panic", "panic in GuestRegionMmap::new".into(), format!("{}: {}", desc, m)),
        OpOutcome::Sim(_) => {}
    }
}

// ---------------------------------------------------------------------------------------------
#[cfg(feature = "xen")]
fn one_request(_step: usize) -> (String, bool) {
    use vm_memory::mmap::MmapRegionError as E;
    use vm_memory::{MmapRange, MmapXenFlags};
    let ename = |e: &E| -> &'static str {
        match e {
            E::InvalidOffsetLength => "InvalidOffsetLength",
            E::MapFixed => "MapFixed",
            E::MappingPastEof => "MappingPastEof",
            E::Mmap(_) => "Mmap",
            E::SeekEnd(_) => "SeekEnd",
            E::SeekStart(_) => "SeekStart",
            E::InvalidFileOffset => "InvalidFileOffset",
            E::MappedInAdvance => "MappedInAdvance",
            E::MmapFlags(_) => "MmapFlags",
            E::Fam(_) => "Fam",
            E::UnexpectedError => "UnexpectedError",
        }
    };
    if cx().sys.xen.is_none() {
        cx().sys.xen = Some(crate::xendev::XenDev::new());
    }
    let c = cx();
    let size = match c.a(6) {
        0 => 0,
        1 => 4096,
        2 => 8192,
        3 => 100,
        _ => 1 + c.a(3 * 4096) as usize,
    };
    // every value of the low five Xen flag bits, random high bits now and then
    let xflags = c.a(32) | if c.a(8) == 0 { 1 << (5 + c.a(27)) } else { 0 };
    let with_file = c.a(4) != 0;
    let offset = if c.a(4) == 0 { [4096u64, 1, u64::MAX, 1 << 63, (1 << 63) + 4096, (1 << 63) - 4096, 1 << 32][c.a(7) as usize] } else { 0 };
    let mmflags: Option<i32> = match c.a(5) {
        0 => None,
        1 => Some(libc::MAP_SHARED | if c.a(2) == 0 { libc::MAP_FIXED } else { libc::MAP_FIXED_NOREPLACE }),
        2 => Some(libc::MAP_SHARED | libc::MAP_NORESERVE),
        _ => Some(libc::MAP_SHARED),
    };
    // the all-zero flag word is a request of its own (the kernel refuses it), not "unset"
    let mmflags = if c.a(12) == 0 { Some(0) } else { mmflags };
    // protection: left at its default (read-write) or set explicitly, PROT_NONE (= 0) included
    let xprot: Option<i32> = match c.a(6) {
        0 => Some(libc::PROT_NONE),
        1 => Some(libc::PROT_READ),
        2 => Some(libc::PROT_READ | libc::PROT_WRITE),
        _ => None,
    };
    let eff_xprot = xprot.unwrap_or(libc::PROT_READ | libc::PROT_WRITE);
    let base = 0x1000 * (1 + c.a(64) as u64);
    let inject = c.a(5);
    let bits = MmapXenFlags::from_bits(xflags);
    let is_unix_kind = xflags == 0;
    let file = if with_file {
        if is_unix_kind {
            let (f, len, seek) = gen_file(offset, size);
            if seek {
                fill_file(&f, len);
            }
            Some((f, len, seek))
        } else {
            Some((cx().sys.xen.as_mut().unwrap().handle(), crate::xendev::GUEST_MEM_SIZE, true))
        }
    } else {
        None
    };
    let fo = file.as_ref().map(|(f, _, _)| {
        // descriptors referring to the device must be known to the emulation
        let dup = if is_unix_kind { f.try_clone().expect("dup") } else { cx().sys.xen.as_mut().unwrap().handle() };
        FileOffset::new(dup, offset)
    });
    let mut range = MmapRange::new(size, fo, GuestAddress(base), xflags, 3);
    if let Some(p) = xprot {
        range.set_prot(p);
    }
    if let Some(f) = mmflags {
        range.set_flags(if is_unix_kind && !with_file { f & !libc::MAP_SHARED | libc::MAP_PRIVATE | libc::MAP_ANONYMOUS } else { f });
    }
    let desc = format!("from_range(size {}, xen flags {:#x}, mmap flags {:?}, prot {:?}, {}, guest base {:#x}){}", size, xflags, mmflags, xprot, match &file { Some((_, len, seek)) => format!("file of {} bytes{} at offset {:#x}", len, if *seek { "" } else { " (unseekable)" }, offset), None => "no file".into() }, base, ["", " [map ioctl made to fail]", " [mmap made to fail]", "", ""][inject as usize]);
    match inject {
        1 => cx().sys.xen.as_mut().unwrap().fail_map_at = Some(cx().sys.xen.as_ref().unwrap().map_calls),
        2 => cx().sys.fail_mmap_at = Some((cx().sys.mmap_calls, libc::ENOMEM)),
        _ => {}
    }
    let calls_before = (cx().sys.mmap_calls, cx().sys.xen.as_ref().unwrap().map_calls);
    let r = catch(|| MmapRegion::<()>::from_range(range));
    cx().sys.xen.as_mut().unwrap().fail_map_at = None;
    // the statement's verdict
    let valid = match bits {
        None => false,
        Some(b) => {
            let (f, g, n) = (b.contains(MmapXenFlags::FOREIGN), b.contains(MmapXenFlags::GRANT), b.contains(MmapXenFlags::NO_ADVANCE_MAP));
            if g {
                !f
            } else if f || b.bits() == 0 {
                !n
            } else {
                false
            }
        }
    };
    let want: &str = if mmflags.map(|f| f & (libc::MAP_FIXED | libc::MAP_FIXED_NOREPLACE) != 0).unwrap_or(false) {
        "MapFixed"
    } else if !valid {
        "MmapFlags"
    } else if !is_unix_kind {
        if !with_file {
            "InvalidFileOffset"
        } else if offset != 0 {
            "InvalidOffsetLength"
        } else {
            "kernel"
        }
    } else if let Some((_, len, seek)) = &file {
        match offset.checked_add(size as u64) {
            None => "InvalidOffsetLength",
            Some(_) if !*seek => "SeekEnd",
            Some(end) if *len < end => "MappingPastEof",
            _ => "kernel",
        }
    } else {
        "kernel"
    };
    let reached = cx().sys.mmap_calls > calls_before.0 || cx().sys.xen.as_ref().unwrap().map_calls > calls_before.1;
    let accepted = match r {
        OpOutcome::Ok(Ok(reg)) => {
            if want != "kernel" {
                verdict("from_range", "a region", want, &desc);
            }
            let want_flags = mmflags.map(|f| if is_unix_kind && !with_file { f & !libc::MAP_SHARED | libc::MAP_PRIVATE | libc::MAP_ANONYMOUS } else { f }).unwrap_or(libc::MAP_NORESERVE | libc::MAP_SHARED);
            // a region that is mapped in advance is mapped: every page of it, at the address it reports
            let advance_mapped_ok = xflags & 8 != 0 || size == 0 || (!reg.as_ptr().is_null() && cx().sys.covered(reg.as_ptr() as usize, size));
            if !advance_mapped_ok {
                cx().violate("C12", "C12/early-unmap", "a live region mapped in advance is not mapped".into(), format!("{}: the region was built but nothing is mapped at the host address it reports ({:p})", desc, reg.as_ptr()));
                cx().violate("C15", "C15/attributes", "a built region that is not mapped".into(), format!("{}: the region was built but nothing is mapped at the host address it reports ({:p})", desc, reg.as_ptr()));
                return (desc, true);
            }
            if reg.size() != size || reg.prot() != eff_xprot || reg.flags() != want_flags || reg.xen_mmap_flags() != xflags || reg.xen_mmap_data() != 3 || reg.file_offset().map(|f| f.start()) != file.as_ref().map(|_| offset) {
                cx().violate("C15", "C15/attributes", "attributes of the built region".into(), format!("{}: region reports size {} prot {:#x} flags {:#x} xen flags {:#x} data {}", desc, reg.size(), reg.prot(), reg.flags(), reg.xen_mmap_flags(), reg.xen_mmap_data()));
            }
            if let (true, Some((f, len, true))) = (is_unix_kind && want_flags & libc::MAP_SHARED != 0 && eff_xprot == libc::PROT_READ | libc::PROT_WRITE, &file) {
                if *len >= offset + size as u64 && offset + (size as u64) < (1 << 16) && size > 0 {
                    let rr = &reg;
                    check_coherence(reg.as_ptr(), size, f, offset, |d, at| rr.as_volatile_slice().write(d, at).is_ok(), &desc);
                }
            }
            // now and then the region is wrapped at a guest base whose end would pass the top of the
            // address space (bases with the grant marker bit set included): refused at creation
            if size > 0 && cx().a(5) == 0 {
                let hi = [u64::MAX, (u64::MAX - size as u64).wrapping_add(1), u64::MAX - (size as u64 / 2), (1u64 << 63) | (u64::MAX >> 1)][cx().a(4) as usize];
                let overflow = hi.checked_add(size as u64).is_none();
                match catch(|| GuestRegionMmap::new(reg, GuestAddress(hi))) {
                    OpOutcome::Ok(Ok(g)) => {
                        if overflow {
                            verdict("GuestRegionMmap::new", "a guest region", "InvalidGuestRegion", &format!("{} at guest base {:#x}", desc, hi));
                        }
                        drop(g);
                    }
                    OpOutcome::Ok(Err(e)) => {
                        if !overflow || !matches!(e, vm_memory::mmap::Error::InvalidGuestRegion) {
                            verdict("GuestRegionMmap::new", &format!("{:?}", e), if overflow { "InvalidGuestRegion" } else { "a guest region" }, &format!("{} at guest base {:#x}", desc, hi));
                        }
                    }
                    OpOutcome::Panic(m) => cx().violate("C15", "C15/panic", "panic in GuestRegionMmap::new".into(), format!("{}: {}", desc, m)),
                    OpOutcome::Sim(_) => {}
                }
                return (desc, true);
            }
            match catch(|| GuestRegionMmap::new(reg, GuestAddress(base))) {
                OpOutcome::Ok(Ok(g)) => {
                    // a device-backed region shows the guest's memory at its base
                    if !is_unix_kind && size > 0 && xflags & 8 == 0 && eff_xprot & libc::PROT_READ != 0 {
                        let probe = [0x3Cu8, 0x3D, 0x3E];
                        let k = probe.len().min(size);
                        cx().sys.xen.as_ref().unwrap().pwrite(base + (size - k) as u64, &probe[..k]);
                        let mut back = [0u8; 3];
                        let rd = in_mode(Mode::Setup, || g.read(&mut back[..k], vm_memory::MemoryRegionAddress((size - k) as u64)));
                        if !matches!(rd, Ok(n) if n == k) || back[..k] != probe[..k] {
                            cx().violate("C15", "C15/coherence", "guest memory -> region".into(), format!("{}: bytes of the guest's memory at {:#x} do not show in the region", desc, base + (size - k) as u64));
                        }
                    }
                    drop(g);
                }
                OpOutcome::Ok(Err(e)) => cx().violate("C15", "C15/verdict", "GuestRegionMmap::new refused a valid range".into(), format!("{}: {:?}", desc, e)),
                OpOutcome::Panic(m) => cx().violate("C15", "C15/panic", "panic in GuestRegionMmap::new".into(), format!("{}: {}", desc, m)),
                OpOutcome::Sim(_) => {}
            }
            true
        }
        OpOutcome::Ok(Err(e)) => {
            let got = ename(&e);
            if want != "kernel" {
                verdict("from_range", got, want, &desc);
                if reached {
                    cx().violate("C15", "C15/verdict", "mapping attempted for an unsafe request".into(), format!("{}: the request must be refused with {} before anything is mapped", desc, want));
                }
            } else {
                verdict("from_range", got, "Mmap", &desc);
                if !reached {
                    cx().violate("C15", "C15/verdict", "mmap error without a failed map request".into(), format!("{}: answered {} but neither the mmap seam nor the device saw a request", desc, got));
                }
            }
            false
        }
        OpOutcome::Panic(m) => {
            cx().violate("C15", "C15/panic", "panic in from_range".into(), format!("{}: {}", desc, m));
            false
        }
        OpOutcome::Sim(_) => false,
    };
    let _ = raw_write;
    (desc, accepted)
}
