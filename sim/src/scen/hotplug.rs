//! S-hotplug: region maps.
//!  * sequential configuration (C10 + C12): histories of create / build / insert / remove / clone /
//!    publish / snapshot / drop in any order, every earlier handle kept alive and re-checked, the
//!    process address space tracked through the mmap/munmap seam;
//!  * concurrent configuration (C11): readers and updaters of one GuestMemoryAtomic as coroutines
//!    switched at the ArcSwap / mutex seams.

use super::{RunInfo, Scenario};
use crate::json::J;
use crate::sim::{catch, cx, in_mode, run_concurrent, EvKind, Mode, OpOutcome, Policy};
use crate::world::{raw_read, raw_write};
use std::cell::RefCell;
use std::sync::Arc;
use vm_memory::mmap::Error as MErr;
use vm_memory::{Bytes, FileOffset, GuestAddress, GuestAddressSpace, GuestMemory, GuestMemoryAtomic, GuestMemoryLoadGuard, GuestMemoryMmap, GuestMemoryRegion, GuestRegionMmap, MemoryRegionAddress};

type Map = GuestMemoryMmap<()>;
type Reg = GuestRegionMmap<()>;

#[derive(Clone, Debug)]
struct RegInfo {
    id: usize,
    base: u64,
    size: usize,
    kind: &'static str,
    /// id of the mapping in the address-space model (None: external mapping of our own)
    mid: Option<u32>,
    ext: Option<(usize, usize)>,
    host: usize,
}

fn tag(id: usize, size: usize) -> Vec<u8> {
    (0..size.min(8)).map(|i| (0xA0 + id as u8).wrapping_add(17 * i as u8)).collect()
}

enum H {
    Owned(Reg, usize),
    RArc(Arc<Reg>, usize),
    Map(Map, Vec<usize>),
    Atomic(GuestMemoryAtomic<Map>, usize),
    Snap(GuestMemoryLoadGuard<Map>, Vec<usize>),
    Inner(Arc<Map>, Vec<usize>),
}

impl H {
    fn name(&self) -> &'static str {
        match self {
            H::Owned(..) => "region",
            H::RArc(..) => "Arc<region>",
            H::Map(..) => "map",
            H::Atomic(..) => "atomic",
            H::Snap(..) => "snapshot",
            H::Inner(..) => "into_inner handle",
        }
    }
}

struct World {
    regs: Vec<RegInfo>,
    hs: Vec<Option<H>>,
    /// current region list of each replaceable memory object
    atomics: Vec<Vec<usize>>,
    exts: Vec<(usize, usize)>,
    /// one file shared (same descriptor) by several regions at overlapping offset ranges
    shared: Option<(Arc<std::fs::File>, u64)>,
}

impl World {
    fn owners(&self, rid: usize) -> usize {
        self.hs
            .iter()
            .flatten()
            .filter(|h| match h {
                H::Owned(_, r) | H::RArc(_, r) => *r == rid,
                H::Map(_, l) | H::Snap(_, l) | H::Inner(_, l) => l.contains(&rid),
                H::Atomic(_, a) => self.atomics[*a].contains(&rid),
            })
            .count()
    }
    fn live(&self) -> Vec<usize> {
        (0..self.hs.len()).filter(|&i| self.hs[i].is_some()).collect()
    }
    fn pick(&self, f: impl Fn(&H) -> bool) -> Option<usize> {
        let c: Vec<usize> = (0..self.hs.len()).filter(|&i| self.hs[i].as_ref().map(&f).unwrap_or(false)).collect();
        if c.is_empty() {
            None
        } else {
            Some(c[cx().a(c.len() as u32) as usize])
        }
    }
    fn push(&mut self, h: H) -> usize {
        self.hs.push(Some(h));
        self.hs.len() - 1
    }
}

fn merr(e: &MErr) -> &'static str {
    match e {
        MErr::InvalidGuestRegion => "InvalidGuestRegion",
        MErr::MmapRegion(_) => "MmapRegion",
        MErr::NoMemoryRegion => "NoMemoryRegion",
        MErr::MemoryRegionOverlap => "MemoryRegionOverlap",
        MErr::UnsortedMemoryRegions => "UnsortedMemoryRegions",
    }
}

/// the documented verdict for a candidate list of regions
fn validate(regs: &[RegInfo], list: &[usize]) -> Result<(), &'static str> {
    if list.is_empty() {
        return Err("NoMemoryRegion");
    }
    for w in list.windows(2) {
        let (p, n) = (&regs[w[0]], &regs[w[1]]);
        if p.base > n.base {
            return Err("UnsortedMemoryRegions");
        }
        if p.base + (p.size as u64 - 1) >= n.base {
            return Err("MemoryRegionOverlap");
        }
    }
    Ok(())
}

fn gen_base(w: &World, size: usize) -> u64 {
    let c = cx();
    if !w.regs.is_empty() && c.a(3) != 0 {
        let r = &w.regs[c.a(w.regs.len() as u32) as usize];
        let end = r.base.saturating_add(r.size as u64);
        return match c.a(7) {
            0 => end,                                  // adjacent after
            1 => end.saturating_sub(1),                // overlapping by one byte
            2 => r.base,                               // duplicate start
            3 => r.base.saturating_sub(size as u64),   // adjacent before
            4 => r.base.saturating_sub(size as u64).saturating_add(1), // overlaps the start by one byte
            5 => end.saturating_add(1),                // one-byte hole
            _ => end.saturating_add(0x1000 * (1 + c.a(4) as u64)),
        };
    }
    match c.a(8) {
        0 => 0,
        1 => u64::MAX - size as u64,     // ends at the top (highest accepted)
        2 => u64::MAX - size as u64 + 1, // end exceeds the address space
        3 => u64::MAX - c.a(4096) as u64,
        _ => 0x1000 * c.a(64) as u64,
    }
}

pub struct Seq;
pub static SEQ: Seq = Seq;

impl Scenario for Seq {
    fn name(&self) -> &'static str {
        "S-hotplug/sequential"
    }

    fn run(&self) -> RunInfo {
        cx().mode = Mode::Setup;
        let mut w = World { regs: Vec::new(), hs: Vec::new(), atomics: Vec::new(), exts: Vec::new(), shared: None };
        let nops = 2 + cx().a(24) as usize;
        let mut log: Vec<String> = Vec::new();
        let (mut accepted, mut refused, mut drops) = (0, 0, 0);
        for step in 0..nops {
            if !cx().violations.is_empty() {
                break;
            }
            let before_anom = cx().sys.anomalies.len();
            cx().mode = Mode::Actor;
            cx().op_begin(step as u64);
            let desc = seq_op(&mut w, &mut accepted, &mut refused, &mut drops);
            cx().op_end(step as u64, 0);
            cx().mode = Mode::Setup;
            cx().sys.fail_mmap_at = None;
            log.push(desc);
            check_world(&w, step, log.last().unwrap(), before_anom);
        }
        // drop everything, in a tape-chosen order; nothing may stay mapped
        if cx().violations.is_empty() {
            let mut order = w.live();
            while !order.is_empty() && cx().violations.is_empty() {
                let k = cx().a(order.len() as u32) as usize;
                let hi = order.swap_remove(k);
                let before_anom = cx().sys.anomalies.len();
                let name = w.hs[hi].as_ref().unwrap().name();
                let h = w.hs[hi].take();
                cx().mode = Mode::Actor;
                let r = catch(|| drop(h));
                cx().mode = Mode::Setup;
                log.push(format!("final drop of handle {} ({})", hi, name));
                if let OpOutcome::Panic(m) = r {
                    cx().violate("C12", "C12/panic", "panic in drop".into(), format!("{}: {}", log.last().unwrap(), m));
                }
                check_world(&w, nops, log.last().unwrap(), before_anom);
            }
            if cx().violations.is_empty() {
                let left = cx().sys.live_count();
                if left != 0 {
                    cx().violate("C12", "C12/leak", "mapping left after dropping everything".into(), format!("{} library-created mapping(s) remain after every handle was dropped; history {:?}", left, log));
                }
            }
        }
        let desc = if cx().trace { Some(J::obj().set("regions", J::strs(w.regs.iter().map(|r| format!("#{} [{:#x},+{}) {}", r.id, r.base, r.size, r.kind)))).set("history", J::strs(log.clone()))) } else { None };
        // tear down whatever is left (after a violation) and our own external mappings
        for h in w.hs.iter_mut() {
            let h = h.take();
            in_mode(Mode::Setup, || drop(h));
        }
        for (p, l) in w.exts.drain(..) {
            // SAFETY: our own mapping.
            unsafe { libc::munmap(p as *mut libc::c_void, l) };
        }
        cx().mode = Mode::Oracle;
        RunInfo { nontrivial: accepted > 0 && refused > 0 && drops > 0, desc, cell: None }
    }
}

fn check_world(w: &World, step: usize, line: &str, before_anom: usize) {
    // ---- C12: the address space ---------------------------------------------------------------
    let anoms: Vec<String> = cx().sys.anomalies[before_anom..].to_vec();
    for a in anoms {
        let class = if a.contains("never mapped") { "C12/foreign-munmap" } else if a.contains("second munmap") { "C12/double-unmap" } else if a.contains("length") { "C12/wrong-length" } else { "C12/anomaly" };
        cx().violate("C12", class, a.split(" #").next().unwrap_or("anomaly").to_string(), format!("step {} {}: {}", step, line, a));
    }
    for r in &w.regs {
        let owners = w.owners(r.id);
        let live = match r.mid {
            Some(m) => cx().sys.origin_live(m),
            None => true,
        };
        // reachable means every page of the region, not just some piece of its mapping
        let reachable = r.mid.is_none() || cx().sys.covered(r.host, r.size);
        if owners > 0 && !(live && reachable) {
            cx().violate("C12", "C12/early-unmap", format!("{} mapping unmapped while reachable", r.kind), format!("step {} {}: region #{} ({}, {} bytes) still has {} owner(s) but its mapping was unmapped", step, line, r.id, r.kind, r.size, owners));
            return;
        }
        if owners == 0 && live && r.mid.is_some() {
            cx().violate("C12", "C12/late-unmap", format!("{} mapping not unmapped with its last owner", r.kind), format!("step {} {}: region #{} ({}, {} bytes) has no owner left but is still mapped", step, line, r.id, r.kind, r.size));
            return;
        }
    }
    // ---- C10 / C12: every live handle still describes and reaches the same memory ---------------
    // looking at an earlier handle must not panic either
    let guarded = |hi: usize, what: &str, f: &dyn Fn()| {
        if let OpOutcome::Panic(p) = catch(f) {
            let (prop, cls): (&'static str, &str) = if what == "map" { ("C10", "C10/old-map-changed") } else { ("C11", "C11/stability") };
            cx().violate(prop, cls, format!("{} cannot be read any more", what), format!("step {} {}: reading handle {} ({}) panicked: {}", step, line, hi, what, p));
        }
    };
    for (hi, h) in w.hs.iter().enumerate() {
        let Some(h) = h else { continue };
        let check_map = |m: &Map, list: &[usize], what: &str| {
            // handles obtained from the replaceable memory are C11's business, plain maps C10's
            let (prop, cls_changed): (&'static str, &str) = if what == "map" { ("C10", "C10/old-map-changed") } else { ("C11", "C11/stability") };
            let got: Vec<(u64, u64)> = m.iter().map(|r| (r.start_addr().0, r.len())).collect();
            let want: Vec<(u64, u64)> = list.iter().map(|&i| (w.regs[i].base, w.regs[i].size as u64)).collect();
            if got != want || m.num_regions() != want.len() {
                cx().violate(prop, cls_changed, format!("{} lists other regions", what), format!("step {} {}: handle {} ({}) lists {:x?}, the model says {:x?}", step, line, hi, what, got, want));
                return;
            }
            if let Some(wl) = want.iter().map(|&(b, l)| b.wrapping_add(l).wrapping_sub(1)).max() {
                if m.last_addr().0 != wl {
                    cx().violate(prop, cls_changed, format!("{} summary differs from its regions", what), format!("step {} {}: handle {} ({}) reports last_addr() = {:#x} but its regions end at {:#x}", step, line, hi, what, m.last_addr().0, wl));
                    return;
                }
            }
            for w2 in got.windows(2) {
                if w2[0].0 + w2[0].1 > w2[1].0 {
                    cx().violate("C10", "C10/invalid-map", "map not sorted and disjoint".into(), format!("step {} {}: handle {} lists {:x?}", step, line, hi, got));
                }
            }
            // the map resolves nothing outside its own regions: every other region of the world (removed
            // from this map, never part of it, possibly unmapped by now) is absent
            for other in w.regs.iter().filter(|o| !list.contains(&o.id)) {
                let overlaps = list.iter().any(|&i| w.regs[i].base < other.base.wrapping_add(other.size as u64) && other.base < w.regs[i].base + w.regs[i].size as u64);
                if overlaps || other.base.checked_add(other.size as u64).is_none() {
                    continue;
                }
                for probe in [other.base, other.base + other.size as u64 - 1] {
                    if m.find_region(GuestAddress(probe)).is_some() || m.address_in_range(GuestAddress(probe)) || m.get_host_address(GuestAddress(probe)).is_ok() {
                        cx().violate(prop, cls_changed, format!("{} resolves an address outside its regions", what), format!("step {} {}: handle {} ({}) lists {:x?} but resolves {:#x}, an address of region #{} which is not part of it", step, line, hi, what, got, probe, other.id));
                        if let Some(mid) = other.mid {
                            if !cx().sys.origin_live(mid) {
                                cx().violate("C12", "C12/use-after-unmap", format!("{} still resolves a region whose mapping is gone", what), format!("step {} {}: handle {} ({}) resolves {:#x} to region #{} whose mapping has been unmapped with its last owner", step, line, hi, what, probe, other.id));
                            }
                        }
                        return;
                    }
                }
            }
            for &i in list {
                let r = &w.regs[i];
                let mut buf = vec![0u8; r.size.min(8)];
                let res = m.read(&mut buf, GuestAddress(r.base));
                if !matches!(res, Ok(n) if n == buf.len()) || buf != tag(r.id, r.size) {
                    cx().violate(prop, cls_changed, format!("{} reaches other memory", what), format!("step {} {}: through handle {} ({}) region #{} at {:#x} reads {:02x?} ({:?}), expected its tag {:02x?}", step, line, hi, what, r.id, r.base, buf, res.map_err(|e| format!("{:?}", e)), tag(r.id, r.size)));
                    return;
                }
                let host = m.get_host_address(GuestAddress(r.base)).map(|p| p as usize).unwrap_or(0);
                if host != r.host {
                    cx().violate(prop, cls_changed, format!("{} host address changed", what), format!("step {} {}: handle {} maps region #{} at another host address", step, line, hi, r.id));
                }
            }
        };
        match h {
            H::Owned(r, id) => {
                let t = raw_read(r.as_ptr(), w.regs[*id].size.min(8));
                if t != tag(*id, w.regs[*id].size) || r.start_addr().0 != w.regs[*id].base || r.len() != w.regs[*id].size as u64 {
                    cx().violate("C10", "C10/old-map-changed", "region handle changed".into(), format!("step {} {}: region handle {} no longer describes region #{}", step, line, hi, id));
                }
            }
            H::RArc(r, id) => {
                let mut buf = vec![0u8; w.regs[*id].size.min(8)];
                let _ = r.read(&mut buf, MemoryRegionAddress(0));
                if buf != tag(*id, w.regs[*id].size) || r.start_addr().0 != w.regs[*id].base || r.len() != w.regs[*id].size as u64 {
                    cx().violate("C10", "C10/old-map-changed", "region handle changed".into(), format!("step {} {}: Arc region handle {} no longer describes region #{}", step, line, hi, id));
                }
            }
            H::Map(m, l) => guarded(hi, "map", &|| check_map(m, l, "map")),
            H::Snap(g, l) => guarded(hi, "snapshot", &|| check_map(g, l, "snapshot")),
            H::Inner(a, l) => guarded(hi, "into_inner handle", &|| check_map(a, l, "into_inner handle")),
            H::Atomic(a, ai) => {
                let g = in_mode(Mode::Setup, || a.memory());
                guarded(hi, "snapshot taken now", &|| check_map(&g, &w.atomics[*ai], "current map of the replaceable memory (a snapshot taken now)"));
            }
        }
    }
}

fn new_region(w: &mut World) -> Result<(Reg, usize), String> {
    let c = cx();
    let size = match c.a(6) {
        0 => 1,
        1 => 4096,
        2 => 8192,
        3 => 4097,
        _ => 1 + c.a(8192) as usize,
    };
    let base = gen_base(w, size);
    let kind = ["anonymous", "anonymous", "file-backed", "external"][c.a(4) as usize];
    #[cfg(feature = "xen")]
    let kind = if kind == "external" { "anonymous" } else { kind };
    let id = w.regs.len();
    // inject a failing mmap now and then
    let inject = kind != "external" && c.a(10) == 0;
    if inject {
        cx().sys.fail_mmap_at = Some((cx().sys.mmap_calls, [libc::ENOMEM, libc::EACCES, libc::EINVAL][cx().a(3) as usize]));
    }
    let overflow = base.checked_add(size as u64).is_none();
    let live_before = cx().sys.live_count();
    let mut ext = None;
    let mut short_file = false;
    let res: Result<Reg, MErr> = match kind {
        "anonymous" => Reg::from_range(GuestAddress(base), size, None),
        "file-backed" => {
            if cx().a(2) == 0 && w.shared.as_ref().map(|s| s.1 < 14).unwrap_or(true) {
                // windows of one shared file, one page apart: ranges longer than a page alias each
                // other's memory, which is a legitimate layout (mirrors, ROM shadows)
                let (f, next) = w.shared.get_or_insert_with(|| (Arc::new(crate::gmworld::memfd(16 * 4096)), 0));
                let off = 4096 * *next;
                *next += 1;
                cx().count("probe.region_on_shared_file_window");
                Reg::from_range(GuestAddress(base), size, Some(FileOffset::from_arc(f.clone(), off)))
            } else {
                let off = 4096 * cx().a(2) as u64;
                // now and then the file is one byte too short: the request must be refused and leave nothing behind
                short_file = cx().a(8) == 0;
                let f = crate::gmworld::memfd(off + size as u64 - short_file as u64);
                Reg::from_range(GuestAddress(base), size, Some(FileOffset::new(f, off)))
            }
        }
        _ => {
            #[cfg(not(feature = "xen"))]
            {
                // SAFETY: plain anonymous mapping of our own, made with the real libc.
                let p = unsafe { libc::mmap(std::ptr::null_mut(), size, libc::PROT_READ | libc::PROT_WRITE, libc::MAP_PRIVATE | libc::MAP_ANONYMOUS, -1, 0) };
                assert!(p != libc::MAP_FAILED);
                w.exts.push((p as usize, size));
                ext = Some((p as usize, size));
                // SAFETY: the mapping exists and stays until the end of the run.
                let mr = unsafe { vm_memory::MmapRegion::<()>::build_raw(p as *mut u8, size, libc::PROT_READ | libc::PROT_WRITE, libc::MAP_PRIVATE | libc::MAP_ANONYMOUS) };
                match mr {
                    Ok(mr) => Reg::new(mr, GuestAddress(base)),
                    Err(e) => Err(MErr::MmapRegion(e)),
                }
            }
            #[cfg(feature = "xen")]
            {
                unreachable!()
            }
        }
    };
    match res {
        Ok(r) => {
            if overflow || inject || short_file {
                return Err(format!("create {} region [{:#x},+{}) succeeded although {}", kind, base, size, if inject { "mmap was made to fail" } else if short_file { "the file is shorter than the requested range" } else { "its end exceeds the address space" }));
            }
            let host = r.as_ptr() as usize;
            let mid = if kind == "external" { None } else { cx().sys.find_live(host).map(|m| m.id) };
            raw_write(r.as_ptr(), &tag(id, size));
            w.regs.push(RegInfo { id, base, size, kind, mid, ext, host });
            Ok((r, id))
        }
        Err(e) => {
            let name = merr(&e);
            let expected = if inject || short_file { "MmapRegion" } else if overflow { "InvalidGuestRegion" } else { "" };
            if name != expected {
                return Err(format!("create {} region [{:#x},+{}) failed with {} ({:?}); expected {}", kind, base, size, name, e, if expected.is_empty() { "success" } else { expected }));
            }
            if cx().sys.live_count() != live_before {
                return Err(format!("LEAK create {} region [{:#x},+{}) was refused with {} but left a mapping behind", kind, base, size, name));
            }
            Err(format!("refused:{}", name))
        }
    }
}

fn seq_op(w: &mut World, accepted: &mut u32, refused: &mut u32, drops: &mut u32) -> String {
    let mut k = cx().a(18);
    // steer towards operations that are possible in the current state
    let has = |f: &dyn Fn(&H) -> bool| w.hs.iter().flatten().any(|h| f(h));
    let possible = match k {
        3 | 4 => has(&|h| matches!(h, H::RArc(..) | H::Owned(..))),
        5 | 6 => has(&|h| matches!(h, H::Map(..))) && has(&|h| matches!(h, H::RArc(..))),
        7 | 8 | 10 => has(&|h| matches!(h, H::Map(..))),
        9 => has(&|h| !matches!(h, H::Owned(..))),
        11 => has(&|h| matches!(h, H::Atomic(..))),
        12 => has(&|h| matches!(h, H::Atomic(..))) && has(&|h| matches!(h, H::Map(..))),
        13..=15 => !w.live().is_empty(),
        16 | 17 => true,
        _ => true,
    };
    if !possible {
        k = 0;
    }
    let viol10 = |class: &str, fp: String, msg: String| cx().violate("C10", class, fp, msg);
    match k {
        0 | 1 | 2 => match catch(|| new_region(w)) {
            OpOutcome::Ok(Ok((r, id))) => {
                *accepted += 1;
                let arc = cx().a(2) == 0;
                let hi = if arc { w.push(H::RArc(Arc::new(r), id)) } else { w.push(H::Owned(r, id)) };
                format!("create region #{} [{:#x},+{}) {} -> handle {}", id, w.regs[id].base, w.regs[id].size, w.regs[id].kind, hi)
            }
            OpOutcome::Ok(Err(m)) if m.starts_with("refused:") => {
                *refused += 1;
                format!("create region {}", m)
            }
            OpOutcome::Ok(Err(m)) => {
                if m.starts_with("LEAK") {
                    cx().violate("C12", "C12/leak", "refused construction left a mapping".into(), m.clone());
                } else {
                    viol10("C10/create", "region creation verdict".into(), m.clone());
                }
                m
            }
            OpOutcome::Panic(m) => {
                viol10("C10/panic", "panic in region creation".into(), m.clone());
                m
            }
            OpOutcome::Sim(s) => format!("{:?}", s),
        },
        3 | 4 => {
            // build a map from several region handles (consumes plain regions, clones Arc ones)
            let n = cx().a(4) as usize;
            let mut ids = Vec::new();
            let mut plain: Vec<Reg> = Vec::new();
            let mut arcs: Vec<Arc<Reg>> = Vec::new();
            let use_arc = cx().a(2) == 0;
            for _ in 0..n {
                let pickd = if use_arc { w.pick(|h| matches!(h, H::RArc(..))) } else { w.pick(|h| matches!(h, H::Owned(..))) };
                let Some(hi) = pickd else { break };
                if use_arc {
                    if let Some(H::RArc(a, id)) = &w.hs[hi] {
                        if ids.contains(id) && cx().a(2) == 0 {
                            continue;
                        }
                        arcs.push(a.clone());
                        ids.push(*id);
                    }
                } else if let Some(H::Owned(r, id)) = w.hs[hi].take() {
                    plain.push(r);
                    ids.push(id);
                }
            }
            if cx().a(3) != 0 {
                // usually hand them over sorted
                let mut idx: Vec<usize> = (0..ids.len()).collect();
                idx.sort_by_key(|&i| w.regs[ids[i]].base);
                ids = idx.iter().map(|&i| ids[i]).collect();
                if use_arc {
                    arcs = idx.iter().map(|&i| arcs[i].clone()).collect();
                } else {
                    let mut p: Vec<Option<Reg>> = plain.into_iter().map(Some).collect();
                    plain = idx.iter().map(|&i| p[i].take().unwrap()).collect();
                }
            }
            let exp = validate(&w.regs, &ids);
            let desc = format!("{}({:?})", if use_arc { "from_arc_regions" } else { "from_regions" }, ids);
            let r = catch(|| if use_arc { Map::from_arc_regions(arcs) } else { Map::from_regions(plain) });
            match r {
                OpOutcome::Ok(Ok(m)) => {
                    if let Err(e) = exp {
                        viol10("C10/accepted-invalid", format!("{} accepted an invalid list", if use_arc { "from_arc_regions" } else { "from_regions" }), format!("{} succeeded; the documented verdict is {}", desc, e));
                    }
                    *accepted += 1;
                    let hi = w.push(H::Map(m, ids));
                    format!("{} -> handle {}", desc, hi)
                }
                OpOutcome::Ok(Err(e)) => {
                    *refused += 1;
                    let name = merr(&e);
                    if exp != Err(name) {
                        viol10("C10/verdict", format!("verdict of {}", if use_arc { "from_arc_regions" } else { "from_regions" }), format!("{} failed with {}; the documented verdict is {:?}", desc, name, exp));
                    }
                    format!("{} -> {}", desc, name)
                }
                OpOutcome::Panic(m) => {
                    viol10("C10/panic", "panic building a map".into(), format!("{}: {}", desc, m));
                    desc
                }
                OpOutcome::Sim(s) => format!("{:?}", s),
            }
        }
        5 | 6 => {
            // insert_region
            let (Some(mi), Some(ri)) = (w.pick(|h| matches!(h, H::Map(..))), w.pick(|h| matches!(h, H::RArc(..)))) else { return "insert_region skipped".into() };
            let (H::Map(m, list), H::RArc(a, id)) = (w.hs[mi].as_ref().unwrap(), w.hs[ri].as_ref().unwrap()) else { unreachable!() };
            let mut nl = list.clone();
            nl.push(*id);
            nl.sort_by_key(|&i| w.regs[i].base); // stable, like the library's sort_by_key
            let exp = validate(&w.regs, &nl);
            let desc = format!("handle {}.insert_region(#{})", mi, id);
            let r = catch(|| m.insert_region(a.clone()));
            match r {
                OpOutcome::Ok(Ok(nm)) => {
                    if let Err(e) = exp {
                        viol10("C10/accepted-invalid", "insert_region accepted an overlapping region".into(), format!("{} succeeded; the documented verdict is {} (old list {:?})", desc, e, list));
                    }
                    *accepted += 1;
                    let hi = w.push(H::Map(nm, nl));
                    format!("{} -> handle {}", desc, hi)
                }
                OpOutcome::Ok(Err(e)) => {
                    *refused += 1;
                    if exp != Err(merr(&e)) {
                        viol10("C10/verdict", "verdict of insert_region".into(), format!("{} failed with {}; the documented verdict is {:?}", desc, merr(&e), exp));
                    }
                    format!("{} -> {}", desc, merr(&e))
                }
                OpOutcome::Panic(m) => {
                    viol10("C10/panic", "panic in insert_region".into(), format!("{}: {}", desc, m));
                    desc
                }
                OpOutcome::Sim(s) => format!("{:?}", s),
            }
        }
        7 | 8 => {
            // remove_region (right / wrong size, non-start address)
            let Some(mi) = w.pick(|h| matches!(h, H::Map(..))) else { return "remove_region skipped".into() };
            let H::Map(m, list) = w.hs[mi].as_ref().unwrap() else { unreachable!() };
            if list.is_empty() {
                return "remove_region skipped (empty map)".into();
            }
            let victim = list[cx().a(list.len() as u32) as usize];
            let (mut base, mut size) = (w.regs[victim].base, w.regs[victim].size as u64);
            match cx().a(10) {
                0 => size += 1,
                1 => size = size.saturating_sub(1),
                2 => base = base.wrapping_add(1),
                3 => base = base.wrapping_add(size - 1),
                // both wrong in a correlated way: a proper part of the region that ends where the region
                // ends, one that starts where it starts, one in the middle; the region plus its successor
                4 if size > 1 => {
                    let d = 1 + cx().a((size - 1).min(0x2000) as u32) as u64;
                    base = base.wrapping_add(d);
                    size -= d;
                    cx().count("probe.remove_region_of_a_part_ending_at_the_region_end");
                }
                5 if size > 1 => size -= 1 + cx().a((size - 1).min(0x2000) as u32) as u64,
                6 if size > 2 => {
                    base = base.wrapping_add(1);
                    size -= 2;
                }
                7 => {
                    if let Some(&nx) = list.iter().find(|&&i| w.regs[i].base == base.wrapping_add(size)) {
                        size += w.regs[nx].size as u64;
                    }
                }
                _ => {}
            }
            let pos = list.iter().position(|&i| w.regs[i].base == base && w.regs[i].size as u64 == size);
            let desc = format!("handle {}.remove_region({:#x}, {})", mi, base, size);
            let r = catch(|| m.remove_region(GuestAddress(base), size));
            match r {
                OpOutcome::Ok(Ok((nm, reg))) => {
                    match pos {
                        Some(p) => {
                            let mut nl = list.clone();
                            let rid = nl.remove(p);
                            *accepted += 1;
                            let h1 = w.push(H::Map(nm, nl));
                            let h2 = w.push(H::RArc(reg, rid));
                            format!("{} -> map handle {}, region handle {}", desc, h1, h2)
                        }
                        None => {
                            viol10("C10/accepted-invalid", "remove_region without an exact match".into(), format!("{} succeeded although no region matches exactly (list {:?})", desc, list));
                            desc
                        }
                    }
                }
                OpOutcome::Ok(Err(e)) => {
                    *refused += 1;
                    if pos.is_some() || merr(&e) != "InvalidGuestRegion" {
                        viol10("C10/verdict", "verdict of remove_region".into(), format!("{} failed with {}; expected {}", desc, merr(&e), if pos.is_some() { "success" } else { "InvalidGuestRegion" }));
                    }
                    format!("{} -> {}", desc, merr(&e))
                }
                OpOutcome::Panic(mm) => {
                    viol10("C10/panic", "panic in remove_region".into(), format!("{}: {}", desc, mm));
                    desc
                }
                OpOutcome::Sim(s) => format!("{:?}", s),
            }
        }
        9 => {
            // clone a map or a region Arc
            let Some(hi) = w.pick(|h| matches!(h, H::Map(..) | H::RArc(..) | H::Atomic(..) | H::Snap(..) | H::Inner(..))) else { return "clone skipped".into() };
            let nh = match w.hs[hi].as_ref().unwrap() {
                H::Map(m, l) => H::Map(m.clone(), l.clone()),
                H::RArc(a, id) => H::RArc(a.clone(), *id),
                H::Atomic(a, ai) => H::Atomic(a.clone(), *ai),
                H::Snap(g, l) => H::Snap(g.clone(), l.clone()),
                H::Inner(a, l) => H::Inner(a.clone(), l.clone()),
                _ => unreachable!(),
            };
            let name = nh.name();
            let n = w.push(nh);
            format!("clone handle {} ({}) -> handle {}", hi, name, n)
        }
        10 => {
            // publish a map into a replaceable memory object
            let Some(mi) = w.pick(|h| matches!(h, H::Map(..))) else { return "publish skipped".into() };
            let H::Map(m, l) = w.hs[mi].as_ref().unwrap() else { unreachable!() };
            let (m2, l2) = (m.clone(), l.clone());
            w.atomics.push(l2);
            let ai = w.atomics.len() - 1;
            let hi = w.push(H::Atomic(GuestMemoryAtomic::new(m2), ai));
            format!("GuestMemoryAtomic::new(clone of handle {}) -> handle {}", mi, hi)
        }
        11 => {
            let Some(ai) = w.pick(|h| matches!(h, H::Atomic(..))) else { return "snapshot skipped".into() };
            let H::Atomic(a, obj) = w.hs[ai].as_ref().unwrap() else { unreachable!() };
            let g = a.memory();
            let l = w.atomics[*obj].clone();
            let into = cx().a(2) == 0;
            let hi = if into { w.push(H::Inner(g.into_inner(), l)) } else { w.push(H::Snap(g, l)) };
            format!("handle {}.memory(){} -> handle {}", ai, if into { ".into_inner()" } else { "" }, hi)
        }
        12 => {
            // replace the current map of a replaceable memory object
            let (Some(ai), Some(mi)) = (w.pick(|h| matches!(h, H::Atomic(..))), w.pick(|h| matches!(h, H::Map(..)))) else { return "replace skipped".into() };
            let (H::Atomic(a, obj), H::Map(m, l)) = (w.hs[ai].as_ref().unwrap(), w.hs[mi].as_ref().unwrap()) else { unreachable!() };
            let (obj, m2, l2) = (*obj, m.clone(), l.clone());
            let without = cx().a(4) == 0;
            if cx().a(6) == 0 {
                // an earlier updater failed while holding the lock: it is poisoned from now on
                let _ = catch(|| {
                    let _g = a.lock().unwrap_or_else(|e| e.into_inner());
                    panic!("updater failed while holding the update lock");
                });
                cx().count("fault.updater_panics_holding_the_lock");
            }
            let r = catch(|| {
                let g = a.lock().unwrap_or_else(|e| e.into_inner());
                if without {
                    drop(g)
                } else {
                    g.replace(m2)
                }
            });
            if let OpOutcome::Panic(mm) = r {
                cx().violate("C11", "C11/panic", "panic in replace".into(), mm);
            }
            if !without {
                w.atomics[obj] = l2;
            }
            format!("handle {}.lock().{}", ai, if without { "drop (no replace)".to_string() } else { format!("replace(clone of handle {})", mi) })
        }
        16 | 17 => {
            // several regions built by one call; now and then the k-th mmap of the call fails:
            // the call must fail and the regions it had already mapped must not leak
            let n = 1 + cx().a(4) as usize;
            let mut ranges: Vec<(GuestAddress, usize, Option<FileOffset>)> = Vec::new();
            let mut cur = 0x4000_0000u64 + 0x1_0000 * cx().a(64) as u64;
            let mut specs = Vec::new();
            // now and then one range (not necessarily the second) conflicts with its predecessor
            let bad_at = if n >= 2 && cx().a(4) == 0 { Some(1 + cx().a(n as u32 - 1) as usize) } else { None };
            let mut bad_kind = "";
            for k in 0..n {
                let size = [1usize, 4096, 8192, 5000][cx().a(4) as usize];
                let file = cx().a(3) == 0;
                let fo = if file { Some(FileOffset::new(crate::gmworld::memfd(size as u64), 0)) } else { None };
                if bad_at == Some(k) {
                    let (pb, ps, _): (u64, usize, bool) = specs[k - 1];
                    match cx().a(3) {
                        0 => {
                            cur = pb + ps as u64 - 1;
                            bad_kind = "MemoryRegionOverlap";
                        }
                        1 => {
                            cur = pb;
                            bad_kind = "MemoryRegionOverlap";
                        }
                        _ => {
                            cur = pb - 0x1000;
                            bad_kind = "UnsortedMemoryRegions";
                        }
                    }
                }
                ranges.push((GuestAddress(cur), size, fo));
                specs.push((cur, size, file));
                cur += size as u64 + [0u64, 1, 0x1000][cx().a(3) as usize];
            }
            let fail_at = if cx().a(3) == 0 { Some(cx().a(n as u32)) } else { None };
            if let Some(kf) = fail_at {
                cx().sys.fail_mmap_at = Some((cx().sys.mmap_calls + kf, libc::ENOMEM));
            }
            let live_before = cx().sys.live_count();
            let desc = format!("from_ranges_with_files({:x?}){}", specs, fail_at.map(|k| format!(" [mmap #{} of the call made to fail]", k)).unwrap_or_default());
            if bad_at.is_some() {
                // an invalid list: the documented error (or the injected mmap failure), nothing left mapped
                let r = catch(|| Map::from_ranges_with_files(ranges.iter()));
                let out = match r {
                    OpOutcome::Ok(Ok(m)) => {
                        viol10("C10/accepted-invalid", "multi-region construction accepted an invalid list".into(), format!("{} succeeded although range {} conflicts with its predecessor; the documented verdict is {}", desc, bad_at.unwrap(), bad_kind));
                        if let OpOutcome::Panic(p) = catch(|| drop(m)) {
                            cx().violate("C12", "C12/panic", "panic in drop".into(), p);
                        }
                        desc
                    }
                    OpOutcome::Ok(Err(e)) => {
                        *refused += 1;
                        let name = merr(&e);
                        if name != bad_kind && !(fail_at.is_some() && name == "MmapRegion") {
                            viol10("C10/verdict", "verdict of a multi-region construction".into(), format!("{} failed with {}; the documented verdict is {}", desc, name, bad_kind));
                        }
                        format!("{} -> {}", desc, name)
                    }
                    OpOutcome::Panic(m) => {
                        viol10("C10/panic", "panic in from_ranges_with_files".into(), format!("{}: {}", desc, m));
                        desc
                    }
                    OpOutcome::Sim(s) => format!("{:?}", s),
                };
                if cx().sys.live_count() != live_before {
                    cx().violate("C12", "C12/leak", "refused multi-region construction left a mapping".into(), format!("{}: {} mapping(s) of the call are still mapped", out, cx().sys.live_count() - live_before));
                }
                cx().sys.fail_mmap_at = None;
                return out;
            }
            match catch(|| Map::from_ranges_with_files(ranges.iter())) {
                OpOutcome::Ok(Ok(m)) => {
                    if fail_at.is_some() {
                        viol10("C10/create", "multi-region construction verdict".into(), format!("{} succeeded although an mmap failed", desc));
                    }
                    let listed: Vec<(u64, u64)> = m.iter().map(|r| (r.start_addr().0, r.len())).collect();
                    let wanted: Vec<(u64, u64)> = specs.iter().map(|&(b, sz, _)| (b, sz as u64)).collect();
                    if listed != wanted {
                        viol10("C10/create", "multi-region construction result".into(), format!("{} built a map listing {:x?}", desc, listed));
                        if let OpOutcome::Panic(p) = catch(|| drop(m)) {
                            cx().violate("C12", "C12/panic", "panic in drop".into(), p);
                        }
                        return desc;
                    }
                    *accepted += 1;
                    let mut ids = Vec::new();
                    for (i, &(b, sz, file)) in specs.iter().enumerate() {
                        let id = w.regs.len();
                        let r = m.find_region(GuestAddress(b)).unwrap();
                        let host = r.as_ptr() as usize;
                        let mid = cx().sys.find_live(host).map(|x| x.id);
                        raw_write(r.as_ptr(), &tag(id, sz));
                        w.regs.push(RegInfo { id, base: b, size: sz, kind: if file { "file-backed" } else { "anonymous" }, mid, ext: None, host });
                        ids.push(id);
                        let _ = i;
                    }
                    let hi = w.push(H::Map(m, ids));
                    format!("{} -> handle {}", desc, hi)
                }
                OpOutcome::Ok(Err(e)) => {
                    *refused += 1;
                    if fail_at.is_none() {
                        viol10("C10/create", "multi-region construction verdict".into(), format!("{} failed with {:?}", desc, e));
                    }
                    if cx().sys.live_count() != live_before {
                        cx().violate("C12", "C12/leak", "failed multi-region construction left a mapping".into(), format!("{}: refused with {} but {} mapping(s) of the call are still mapped", desc, merr(&e), cx().sys.live_count() - live_before));
                    }
                    format!("{} -> {}", desc, merr(&e))
                }
                OpOutcome::Panic(m) => {
                    viol10("C10/panic", "panic in from_ranges_with_files".into(), format!("{}: {}", desc, m));
                    desc
                }
                OpOutcome::Sim(s) => format!("{:?}", s),
            }
        }
        _ => {
            // drop any live handle
            let live = w.live();
            if live.is_empty() {
                return "drop skipped".into();
            }
            let hi = live[cx().a(live.len() as u32) as usize];
            let name = w.hs[hi].as_ref().unwrap().name();
            let h = w.hs[hi].take();
            *drops += 1;
            if let OpOutcome::Panic(m) = catch(|| drop(h)) {
                cx().violate("C12", "C12/panic", "panic in drop".into(), m);
            }
            format!("drop handle {} ({})", hi, name)
        }
    }
}

// ---------------------------------------------------------------------------------------------
// concurrent configuration (C11)

pub struct Conc;
pub static CONC: Conc = Conc;

#[derive(Clone, Debug)]
struct Obs {
    /// event sequence number when the snapshot call started / returned
    t0: usize,
    t1: usize,
    list: Vec<(u64, u64, u8)>,
    gen: u64,
    actor: usize,
    what: &'static str,
}

#[derive(Clone, Debug)]
struct Publ {
    /// sequence numbers around the replace call
    t0: usize,
    t1: usize,
    gen: u64,
    list: Vec<(u64, u64, u8)>,
    /// the list of the map this one was derived from and the change applied
    from_gen: u64,
    change: String,
    actor: usize,
}

const GEN_ADDR: u64 = 0x100;

fn observe(m: &Map) -> (Vec<(u64, u64, u8)>, u64) {
    let list: Vec<(u64, u64, u8)> = m
        .iter()
        .map(|r| {
            let mut b = [0u8; 1];
            let _ = r.read(&mut b, MemoryRegionAddress(if r.start_addr().0 == 0 { 8 } else { 0 }));
            (r.start_addr().0, r.len(), b[0])
        })
        .collect();
    let gen: u64 = m.read_obj(GuestAddress(GEN_ADDR)).unwrap_or(u64::MAX);
    // the map must agree with itself: every region it lists is found and reached through the
    // map-level lookup, and the summary queries describe the same list
    let r = catch(|| -> Option<String> {
        for &(b, l, _) in &list {
            match m.find_region(GuestAddress(b)) {
                Some(r) if r.start_addr().0 == b && r.len() == l => {}
                other => return Some(format!("find_region({:#x}) gives {:?} although the map lists a region [{:#x},+{})", b, other.map(|r| (r.start_addr().0, r.len())), b, l)),
            }
            if m.find_region(GuestAddress(b + l - 1)).map(|r| r.start_addr().0) != Some(b) {
                return Some(format!("the last byte of the listed region [{:#x},+{}) is not found", b, l));
            }
            let mut one = [0u8; 1];
            if !matches!(m.read(&mut one, GuestAddress(b)), Ok(1)) {
                return Some(format!("a read at the start of the listed region [{:#x},+{}) fails", b, l));
            }
        }
        if m.num_regions() != list.len() {
            return Some(format!("num_regions() = {} but {} regions are listed", m.num_regions(), list.len()));
        }
        if let Some(want) = list.iter().map(|&(b, l, _)| b + l - 1).max() {
            if m.last_addr().0 != want {
                return Some(format!("last_addr() = {:#x} but the listed regions end at {:#x}", m.last_addr().0, want));
            }
        }
        None
    });
    match r {
        OpOutcome::Ok(None) => {}
        OpOutcome::Ok(Some(why)) => cx().violate("C11", "C11/wholeness", "a snapshot that does not agree with itself".into(), format!("snapshot listing {:x?}: {}", list.iter().map(|&(b, l, _)| (b, l)).collect::<Vec<_>>(), why)),
        OpOutcome::Panic(p) => cx().violate("C11", "C11/panic", "panic while reading a snapshot".into(), format!("snapshot listing {:x?}: {}", list.iter().map(|&(b, l, _)| (b, l)).collect::<Vec<_>>(), p)),
        OpOutcome::Sim(_) => {}
    }
    (list, gen)
}

impl Scenario for Conc {
    fn name(&self) -> &'static str {
        "S-hotplug/concurrent"
    }

    fn run(&self) -> RunInfo {
        cx().mode = Mode::Setup;
        let c = cx();
        c.cfg.yield_swap = true;
        c.sched.budget = 4000;
        c.sched.policy = match c.a(6) {
            0 => Policy::Uniform,
            1 => Policy::Sticky(1, 2),
            2 => Policy::Sticky(4, 5),
            3 => Policy::Pct(0),
            4 => Policy::Pct(1),
            _ => Policy::Pct(2),
        };
        // region 0 holds the generation word; every published map contains it. Each map has its
        // own control region so that a map's generation tag is part of that map only.
        let mk_ctl = |gen: u64| -> Arc<Reg> {
            let r = Reg::from_range(GuestAddress(0), 4096, None).expect("control region");
            r.write_obj(gen, MemoryRegionAddress(GEN_ADDR)).unwrap();
            r.write_obj(0xC0u8, MemoryRegionAddress(8)).unwrap();
            Arc::new(r)
        };
        let mk_data = |slot: u64, tagv: u8| -> Arc<Reg> {
            let r = Reg::from_range(GuestAddress(0x10000 + slot * 0x2000), 4096 + 4096 * (slot as usize % 2), None).expect("data region");
            r.write_obj(tagv, MemoryRegionAddress(0)).unwrap();
            Arc::new(r)
        };
        let m0 = Map::from_arc_regions(vec![mk_ctl(0), mk_data(0, 1)]).unwrap();
        let atomic = GuestMemoryAtomic::new(m0);
        let (l0, _) = in_mode(Mode::Oracle, || observe(&atomic.memory()));
        let nread = 1 + cx().a(3) as usize;
        let nupd = 1 + cx().a(2) as usize;
        let obs: RefCell<Vec<Obs>> = RefCell::new(Vec::new());
        let publ: RefCell<Vec<Publ>> = RefCell::new(vec![Publ { t0: 0, t1: 0, gen: 0, list: l0, from_gen: 0, change: "initial".into(), actor: 99 }]);
        let gen_ctr: RefCell<u64> = RefCell::new(0);
        let tag_ctr: RefCell<u8> = RefCell::new(1);
        let panics: RefCell<Vec<String>> = RefCell::new(Vec::new());
        // per-actor programs are drawn up front (workload section of the tape)
        let rprog: Vec<Vec<u32>> = (0..nread).map(|_| (0..1 + cx().a(4)).map(|_| cx().a(6)).collect()).collect();
        let uprog: Vec<Vec<(u32, u32)>> = (0..nupd).map(|_| (0..1 + cx().a(3)).map(|_| (cx().a(7), cx().a(4))).collect()).collect();
        // now and then no actor gets a clone of its own: all of them use the one handle by reference
        let shared_handle = cx().a(3) == 0;
        if shared_handle {
            cx().count("probe.all_actors_share_one_handle");
        }
        {
            let mut bodies: Vec<Box<dyn FnOnce() + '_>> = Vec::new();
            let atomic_ref = &atomic;
            for (ai, prog) in rprog.iter().enumerate() {
                let owned = if shared_handle { None } else { Some(atomic.clone()) };
                let (obs, panics) = (&obs, &panics);
                bodies.push(Box::new(move || {
                    let handle = owned.as_ref().unwrap_or(atomic_ref);
                    let r = catch(|| {
                        let mut held: Vec<(GuestMemoryLoadGuard<Map>, Vec<(u64, u64, u8)>, u64)> = Vec::new();
                        let mut inner: Vec<(Arc<Map>, Vec<(u64, u64, u8)>, u64)> = Vec::new();
                        let mut extra: Vec<GuestMemoryAtomic<Map>> = Vec::new();
                        for &op in prog {
                            match op {
                                0 | 1 | 2 => {
                                    let t0 = cx().events.len();
                                    cx().op_begin(ai as u64);
                                    // through the actor's handle, through a clone of it made right now, or
                                    // through a clone made earlier
                                    let g = match cx().b(4) {
                                        0 => {
                                            cx().count("probe.snapshot_through_a_handle_cloned_during_the_run");
                                            let h2 = handle.clone();
                                            let g = h2.memory();
                                            extra.push(h2);
                                            g
                                        }
                                        1 if !extra.is_empty() => extra[extra.len() - 1].memory(),
                                        _ => handle.memory(),
                                    };
                                    cx().op_end(ai as u64, 0);
                                    let t1 = cx().events.len();
                                    let (list, gen) = observe(&g);
                                    obs.borrow_mut().push(Obs { t0, t1, list: list.clone(), gen, actor: ai, what: "memory()" });
                                    if op == 2 {
                                        inner.push((g.into_inner(), list, gen));
                                    } else if op == 1 {
                                        held.push((g.clone(), list.clone(), gen));
                                        held.push((g, list, gen));
                                    } else {
                                        held.push((g, list, gen));
                                    }
                                }
                                3 => {
                                    // re-observe everything held: it must not have changed
                                    for (g, list, gen) in held.iter() {
                                        let (l2, g2) = observe(g);
                                        let t = cx().events.len();
                                        obs.borrow_mut().push(Obs { t0: t, t1: t, list: l2.clone(), gen: g2, actor: ai, what: if &l2 == list && g2 == *gen { "held-same" } else { "held-CHANGED" } });
                                    }
                                    for (a, list, gen) in inner.iter() {
                                        let (l2, g2) = observe(a);
                                        let t = cx().events.len();
                                        obs.borrow_mut().push(Obs { t0: t, t1: t, list: l2.clone(), gen: g2, actor: ai, what: if &l2 == list && g2 == *gen { "held-same" } else { "held-CHANGED" } });
                                    }
                                }
                                4 => {
                                    if !held.is_empty() {
                                        held.remove(0);
                                    }
                                }
                                _ => {
                                    if !inner.is_empty() {
                                        inner.remove(0);
                                    }
                                }
                            }
                        }
                        // final look at everything still held
                        for (g, list, gen) in held.iter() {
                            let (l2, g2) = observe(g);
                            let t = cx().events.len();
                            obs.borrow_mut().push(Obs { t0: t, t1: t, list: l2.clone(), gen: g2, actor: ai, what: if &l2 == list && g2 == *gen { "held-same" } else { "held-CHANGED" } });
                        }
                    });
                    if let OpOutcome::Panic(m) = r {
                        panics.borrow_mut().push(format!("reader {}: {}", ai, m));
                    }
                }));
            }
            for (ui, prog) in uprog.iter().enumerate() {
                let owned = if shared_handle { None } else { Some(atomic.clone()) };
                let actor = nread + ui;
                let (publ, gen_ctr, tag_ctr, panics) = (&publ, &gen_ctr, &tag_ctr, &panics);
                let mk_ctl = &mk_ctl;
                let mk_data = &mk_data;
                bodies.push(Box::new(move || {
                    let handle = owned.as_ref().unwrap_or(atomic_ref);
                    let r = catch(|| {
                        for &(op, slot) in prog {
                            let t0 = cx().events.len();
                            cx().op_begin(actor as u64);
                            // a poisoned update lock is recovered the documented way
                            let guard = handle.lock().unwrap_or_else(|e| {
                                cx().count("probe.poisoned_lock_recovered");
                                e.into_inner()
                            });
                            if op == 6 {
                                // the updater fails while it holds the lock: the lock is released and poisoned
                                cx().count("fault.updater_panics_holding_the_lock");
                                let r = catch(move || {
                                    let _g = guard;
                                    panic!("updater failed while holding the update lock");
                                });
                                let _ = r;
                                cx().op_end(actor as u64, 0);
                                continue;
                            }
                            if op == 0 {
                                // take the lock and give it back without replacing
                                cx().count("probe.guard_dropped_without_replace");
                                drop(guard);
                                cx().op_end(actor as u64, 0);
                                continue;
                            }
                            let cur = handle.memory();
                            let (cur_list, cur_gen) = observe(&cur);
                            // derive: toggle the data region of `slot`; always swap the control region
                            let slot = 1 + slot as u64;
                            let base = 0x10000 + slot * 0x2000;
                            let keep: Vec<(GuestAddress, u64)> = cur.iter().filter(|r| r.start_addr().0 != 0 && r.start_addr().0 != base).map(|r| (r.start_addr(), r.len())).collect();
                            // the Arc handles of the regions that stay are obtained through remove_region
                            let mut regions: Vec<Arc<Reg>> = keep.iter().map(|&(a, l)| cur.remove_region(a, l).unwrap().1).collect();
                            let had = cur.find_region(GuestAddress(base)).is_some();
                            let change;
                            if had {
                                change = format!("remove [{:#x}]", base);
                            } else {
                                let t = {
                                    let mut tc = tag_ctr.borrow_mut();
                                    *tc += 1;
                                    *tc
                                };
                                regions.push(mk_data(slot, t));
                                change = format!("add [{:#x}] tag {}", base, t);
                            }
                            let gen = {
                                let mut g = gen_ctr.borrow_mut();
                                *g += 1;
                                *g
                            };
                            // the new map is either built from the list of regions or derived from the
                            // current one step by step with the hot-plug operations themselves
                            let nm = if cx().b(2) == 0 {
                                regions.push(mk_ctl(gen));
                                regions.sort_by_key(|r| r.start_addr());
                                Map::from_arc_regions(regions).unwrap()
                            } else {
                                cx().count("probe.map_derived_by_insert_and_remove");
                                // control region first, so that the published map is what the last
                                // insert_region / remove_region returned
                                let mut m: Map = (*cur).clone();
                                let cl = m.find_region(GuestAddress(0)).unwrap().len();
                                m = m.remove_region(GuestAddress(0), cl).unwrap().0;
                                m = m.insert_region(mk_ctl(gen)).unwrap();
                                if had {
                                    let l = m.find_region(GuestAddress(base)).unwrap().len();
                                    m.remove_region(GuestAddress(base), l).unwrap().0
                                } else {
                                    m.insert_region(regions.pop().unwrap()).unwrap()
                                }
                            };
                            let (nlist, _) = observe(&nm);
                            drop(cur);
                            guard.replace(nm);
                            cx().op_end(actor as u64, 0);
                            let t1 = cx().events.len();
                            let _ = cur_list;
                            publ.borrow_mut().push(Publ { t0, t1, gen, list: nlist, from_gen: cur_gen, change, actor });
                        }
                    });
                    if let OpOutcome::Panic(m) = r {
                        panics.borrow_mut().push(format!("updater {}: {}", ui, m));
                    }
                }));
            }
            run_concurrent(bodies);
        }
        let c = cx();
        c.count_n("sim.steps", c.sched.steps);
        let (final_list, final_gen) = in_mode(Mode::Oracle, || observe(&atomic.memory()));
        let obs = obs.into_inner();
        let mut publ = publ.into_inner();
        // generations are allocated under the update lock: with working mutual exclusion this is the publication order
        publ.sort_by_key(|p| p.gen);
        let cfg = format!("{} reader(s) {:?}, {} updater(s) {:?}, policy {:?}", nread, rprog, nupd, uprog, cx().sched.policy);
        // ---- oracle --------------------------------------------------------------------------------
        for p in panics.into_inner() {
            cx().violate("C11", "C11/panic", "panic".into(), format!("{}: {}", cfg, p));
        }
        if cx().sched.deadlock {
            cx().violate("C11", "C11/deadlock", "deadlock".into(), format!("{}: some actors are blocked on the update lock forever", cfg));
        }
        if cx().sched.over_budget {
            cx().violate("C11", "C11/liveness", "step budget exceeded".into(), format!("{}: the run did not finish within {} scheduling steps", cfg, cx().sched.budget));
        }
        for o in &obs {
            // wholeness: exactly one published map
            match publ.iter().find(|p| p.gen == o.gen) {
                Some(p) if p.list == o.list => {}
                Some(p) => cx().violate("C11", "C11/wholeness", "snapshot mixes two maps".into(), format!("{}: reader {} saw generation {} with regions {:x?}, but that generation was published as {:x?}", cfg, o.actor, o.gen, o.list, p.list)),
                None => cx().violate("C11", "C11/wholeness", "snapshot shows a map nobody published".into(), format!("{}: reader {} saw generation {} with regions {:x?}", cfg, o.actor, o.gen, o.list)),
            }
            if o.what == "held-CHANGED" {
                cx().violate("C11", "C11/stability", "held snapshot changed".into(), format!("{}: a snapshot held by reader {} later showed generation {} regions {:x?}", cfg, o.actor, o.gen, o.list));
            }
            // recency: a memory() call that started after a replace returned shows that generation or a later one
            if o.what == "memory()" {
                let newest_before = publ.iter().filter(|p| p.t1 <= o.t0 && p.actor != 99).map(|p| p.gen).max().unwrap_or(0);
                let order = |g: u64| publ.iter().position(|p| p.gen == g);
                if let (Some(seen), Some(need)) = (order(o.gen), order(newest_before)) {
                    if seen < need {
                        cx().violate("C11", "C11/recency", "stale snapshot after a completed replacement".into(), format!("{}: reader {} called memory() after generation {} had been published and got generation {}", cfg, o.actor, newest_before, o.gen));
                    }
                }
            }
        }
        // no lost replacement: the published maps form a chain
        for k in 1..publ.len() {
            if publ[k].from_gen != publ[k - 1].gen {
                cx().violate("C11", "C11/lost-update", "replacement derived from a stale map".into(), format!("{}: generation {} ({}) was derived from generation {} but generation {} was current (two updaters overlapped)", cfg, publ[k].gen, publ[k].change, publ[k].from_gen, publ[k - 1].gen));
            }
        }
        if let Some(last) = publ.last() {
            if final_gen != last.gen || final_list != last.list {
                cx().violate("C11", "C11/lost-update", "final map is not the last published one".into(), format!("{}: the final map is generation {} {:x?}; the last replace published generation {} {:x?}", cfg, final_gen, final_list, last.gen, last.list));
            }
        }
        // stability includes "memory still mapped": nothing reachable was unmapped (seam anomalies)
        for a in cx().sys.anomalies.clone() {
            cx().violate("C11", "C11/stability", "mapping anomaly".into(), format!("{}: {}", cfg, a));
        }
        // probes
        let held_across = obs.iter().filter(|o| o.what == "held-same").filter(|o| publ.iter().filter(|p| p.gen > o.gen).count() >= 2).count();
        if held_across > 0 {
            cx().count("probe.snapshot_held_across_two_replacements");
        }
        if nupd > 1 {
            cx().count("probe.two_updaters");
        }
        let inop = cx().sched.inop_switches;
        let desc = if cx().trace {
            let sched: Vec<String> = cx().events.iter().filter(|e| matches!(e.kind, EvKind::Swap | EvKind::OpStart | EvKind::OpEnd)).take(80).map(crate::sim::fmt_ev).collect();
            Some(J::obj().set("config", J::s(cfg.clone())).set("published", J::strs(publ.iter().map(|p| format!("gen {} by a{} [{}..{}] from gen {}: {} -> {:x?}", p.gen, p.actor, p.t0, p.t1, p.from_gen, p.change, p.list)))).set("observations", J::strs(obs.iter().map(|o| format!("a{} {} [{}..{}] gen {} {:x?}", o.actor, o.what, o.t0, o.t1, o.gen, o.list)))).set("schedule", J::strs(sched)))
        } else {
            None
        };
        in_mode(Mode::Setup, || drop(atomic));
        cx().mode = Mode::Oracle;
        RunInfo { nontrivial: inop > 0 && publ.len() > 1 && !obs.is_empty(), desc, cell: None }
    }
}
