#!/usr/bin/env python3
"""Print a markdown table of the latest sensitivity result per mutant (mutants/results.jsonl)."""
import json, os
ROOT = os.path.dirname(os.path.dirname(os.path.abspath(__file__)))
defs = {}
for fn in sorted(os.listdir(os.path.join(ROOT, "mutants"))):
    if fn.endswith(".json"):
        for m in json.load(open(os.path.join(ROOT, "mutants", fn))):
            defs[m["id"]] = m
last = {}
for l in open(os.path.join(ROOT, "mutants", "results.jsonl")):
    r = json.loads(l)
    last[r["id"]] = r
print("| id | property | deliberate change | caught (quick) | oracle classes |")
print("|---|---|---|---|---|")
n = c = 0
for mid in sorted(defs, key=lambda s: (s[1:3], s)):
    d = defs[mid]
    r = last.get(mid)
    if not r:
        continue
    n += 1
    verdict = "yes" if r["exit"] == 1 else ("no" + (" (" + d["expect"] + ")" if "expect" in d else ""))
    if r["exit"] == 1:
        c += 1
    print(f"| {mid} | {d['prop']} | {d['what']} | {verdict} | {', '.join(r.get('classes', [])) or ('crash / signal' if r['exit']==1 else '-')} |")
print(f"\n{c} of {n} caught.")
