//! Emulated Xen gntdev / privcmd device (xen build only).
//!
//! One sparse memfd *is* the guest's memory: guest page number p lives at file offset p * 4096.
//! * gntdev: IOCTL_GNTDEV_MAP_GRANT_REF(count, refs) records a live grant and returns
//!   `index = refs[0].reference * 4096`, so that the library's subsequent `mmap(fd, index)` maps
//!   exactly the granted guest pages; IOCTL_GNTDEV_UNMAP_GRANT_REF(index, count) releases it.
//! * privcmd: IOCTL_PRIVCMD_MMAPBATCH_V2(num, addr, pfns) re-maps each page of the already
//!   mmap'ed range onto guest page pfns[i].

use crate::sim::cx;
use std::fs::File;
use std::os::fd::AsRawFd;

pub const PAGE: usize = 4096;
pub const GUEST_MEM_SIZE: u64 = 1 << 32;

#[derive(Clone, Debug)]
pub struct Grant {
    pub index: u64,
    pub count: u32,
    pub live: bool,
    /// mapping ids (address-space model) of windows created over this grant
    pub windows: Vec<u32>,
}

pub struct XenDev {
    pub mem: File,
    pub fds: Vec<i32>,
    pub grants: Vec<Grant>,
    pub ioctl_calls: u32,
    /// fail the k-th (0-based) map ioctl (grant map or privcmd batch) of the run
    pub fail_map_at: Option<u32>,
    pub map_calls: u32,
    /// fail the next unmap_grant_ref ioctl (the device keeps the grant, as a busy driver would)
    pub fail_next_unmap: bool,
    pub unmap_failed: u32,
    pub anomalies: Vec<String>,
    pub log: Vec<String>,
    pub foreign_maps: u32,
}

impl XenDev {
    pub fn new() -> XenDev {
        let mem = crate::gmworld::memfd(GUEST_MEM_SIZE);
        let fd = mem.as_raw_fd();
        XenDev { mem, fds: vec![fd], grants: Vec::new(), ioctl_calls: 0, fail_map_at: None, map_calls: 0, fail_next_unmap: false, unmap_failed: 0, anomalies: Vec::new(), log: Vec::new(), foreign_maps: 0 }
    }
    /// a File referring to the device, to hand to the library
    pub fn handle(&mut self) -> File {
        let f = self.mem.try_clone().expect("dup");
        self.fds.push(f.as_raw_fd());
        f
    }
    /// descriptor numbers are reused, so the device is recognised by its inode
    pub fn is_dev(&self, fd: i32) -> bool {
        if fd < 0 {
            return false;
        }
        // SAFETY: fstat into zeroed buffers.
        unsafe {
            let mut a: libc::stat = std::mem::zeroed();
            let mut b: libc::stat = std::mem::zeroed();
            libc::fstat(fd, &mut a) == 0 && libc::fstat(self.mem.as_raw_fd(), &mut b) == 0 && a.st_ino == b.st_ino && a.st_dev == b.st_dev
        }
    }
    pub fn live_grants(&self) -> Vec<(u64, u32)> {
        self.grants.iter().filter(|g| g.live).map(|g| (g.index, g.count)).collect()
    }
    pub fn pwrite(&self, guest_addr: u64, data: &[u8]) {
        // SAFETY: writing our own buffer into our own file.
        let n = unsafe { libc::pwrite(self.mem.as_raw_fd(), data.as_ptr() as *const libc::c_void, data.len(), guest_addr as libc::off_t) };
        assert_eq!(n, data.len() as isize);
    }
    pub fn pread(&self, guest_addr: u64, len: usize) -> Vec<u8> {
        let mut v = vec![0u8; len];
        // SAFETY: reading into our own buffer.
        let n = unsafe { libc::pread(self.mem.as_raw_fd(), v.as_mut_ptr() as *mut libc::c_void, len, guest_addr as libc::off_t) };
        assert_eq!(n, len as isize);
        v
    }

    pub fn on_mmap(&mut self, fd: i32, offset: u64, len: usize, id: u32) {
        if !self.is_dev(fd) {
            return;
        }
        let pages = len.div_ceil(PAGE) as u64;
        // a window over the grant device must lie inside a live grant (offset 0 maps are the
        // privcmd style "reserve first, populate by ioctl" mappings and are not checked here)
        // like the driver, prefer the grant whose index is the offset (several may be live at once)
        let exact = self.grants.iter().position(|g| g.live && g.windows.is_empty() && offset == g.index && pages <= g.count as u64);
        if let Some(i) = exact {
            self.grants[i].windows.push(id);
        } else if let Some(g) = self.grants.iter_mut().find(|g| g.live && offset >= g.index && offset + pages * PAGE as u64 <= g.index + g.count as u64 * PAGE as u64) {
            g.windows.push(id);
        } else if offset != 0 {
            self.anomalies.push(format!("mmap of {} byte(s) of the grant device at offset {:#x} which no live grant covers", len, offset));
        }
    }
    pub fn on_munmap(&mut self, id: u32) {
        for g in self.grants.iter_mut() {
            g.windows.retain(|&w| w != id);
        }
    }
}

#[repr(C)]
struct MapHdr {
    count: u32,
    pad: u32,
    index: u64,
}
#[repr(C)]
struct Ref {
    domid: u32,
    reference: u32,
}
#[repr(C)]
struct Unmap {
    index: u64,
    count: u32,
    pad: u32,
}
#[repr(C)]
struct Batch {
    num: u32,
    domid: u16,
    addr: *mut libc::c_void,
    arr: *const u64,
    err: *mut libc::c_int,
}

/// # Safety
/// `arg` must point to the ioctl argument structure the library built for `req`.
pub unsafe fn ioctl(fd: i32, req: u64, arg: *mut u8, _arg_len: usize) -> i32 {
    let c = cx();
    let Some(x) = c.sys.xen.as_mut() else { return -1 };
    if !x.is_dev(fd) {
        x.anomalies.push(format!("ioctl {:#x} on a descriptor that is not the emulated device", req));
        return -1;
    }
    x.ioctl_calls += 1;
    let ty = ((req >> 8) & 0xff) as u8;
    let nr = (req & 0xff) as u8;
    match (ty, nr) {
        (b'G', 0) => {
            let hdr = &mut *(arg as *mut MapHdr);
            let refs = std::slice::from_raw_parts(arg.add(std::mem::size_of::<MapHdr>()) as *const Ref, hdr.count as usize);
            let k = x.map_calls;
            x.map_calls += 1;
            if x.fail_map_at == Some(k) {
                x.log.push(format!("map_grant_ref(count={}) -> injected failure", hdr.count));
                cx().count("fault.xen_map_ioctl_fail");
                return -1;
            }
            if hdr.count == 0 {
                x.log.push("map_grant_ref(count=0) -> EINVAL".into());
                return -1;
            }
            for (i, r) in refs.iter().enumerate() {
                if r.reference != refs[0].reference + i as u32 {
                    x.anomalies.push("grant references are not consecutive".into());
                }
            }
            let index = refs[0].reference as u64 * PAGE as u64;
            hdr.index = index;
            x.grants.push(Grant { index, count: hdr.count, live: true, windows: Vec::new() });
            x.log.push(format!("map_grant_ref(first_ref={}, count={}) -> index {:#x}", refs[0].reference, hdr.count, index));
            cx().ev(crate::sim::EvKind::Sys, 5, index, hdr.count as u64);
            0
        }
        (b'G', 1) => {
            let u = &*(arg as *const Unmap);
            cx().ev(crate::sim::EvKind::Sys, 6, u.index, u.count as u64);
            let x = cx().sys.xen.as_mut().unwrap();
            if x.fail_next_unmap {
                x.fail_next_unmap = false;
                x.unmap_failed += 1;
                x.log.push(format!("unmap_grant_ref(index={:#x}, count={}) -> injected failure", u.index, u.count));
                cx().count("fault.xen_unmap_ioctl_fail");
                // SAFETY: errno location is always valid.
                *libc::__errno_location() = libc::EBUSY;
                return -1;
            }
            let pick = x.grants.iter().position(|g| g.live && g.index == u.index && g.count == u.count && g.windows.is_empty()).or_else(|| x.grants.iter().position(|g| g.live && g.index == u.index && g.count == u.count));
            match pick.map(|i| &mut x.grants[i]) {
                Some(g) => {
                    if !g.windows.is_empty() {
                        x.anomalies.push(format!("grant at index {:#x} released while {} window(s) over it are still mapped", u.index, g.windows.len()));
                    }
                    g.live = false;
                    x.log.push(format!("unmap_grant_ref(index={:#x}, count={})", u.index, u.count));
                    0
                }
                None => {
                    x.anomalies.push(format!("unmap_grant_ref(index={:#x}, count={}) matches no live grant", u.index, u.count));
                    -1
                }
            }
        }
        (b'P', 4) => {
            let b = &*(arg as *const Batch);
            let k = x.map_calls;
            x.map_calls += 1;
            if x.fail_map_at == Some(k) {
                x.log.push(format!("privcmd mmapbatch_v2(num={}) -> injected failure", b.num));
                cx().count("fault.xen_map_ioctl_fail");
                return -1;
            }
            let pfns = std::slice::from_raw_parts(b.arr, b.num as usize);
            let errs = std::slice::from_raw_parts_mut(b.err, b.num as usize);
            for (i, &pfn) in pfns.iter().enumerate() {
                let va = (b.addr as usize + i * PAGE) as *mut libc::c_void;
                let r = libc::mmap(va, PAGE, libc::PROT_READ | libc::PROT_WRITE, libc::MAP_SHARED | libc::MAP_FIXED, x.mem.as_raw_fd(), (pfn * PAGE as u64) as libc::off_t);
                errs[i] = if r == libc::MAP_FAILED { -1 } else { 0 };
            }
            x.foreign_maps += 1;
            x.log.push(format!("privcmd mmapbatch_v2(num={}, first pfn={})", b.num, pfns.first().copied().unwrap_or(0)));
            cx().ev(crate::sim::EvKind::Sys, 7, b.num as u64, pfns.first().copied().unwrap_or(0));
            0
        }
        _ => {
            x.anomalies.push(format!("unknown ioctl {:#x}", req));
            -1
        }
    }
}
