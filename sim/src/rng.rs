//! splitmix64 + xoshiro256** (own implementation, no global state).

#[derive(Clone, Debug)]
pub struct Rng {
    s: [u64; 4],
}

pub fn splitmix64(x: &mut u64) -> u64 {
    *x = x.wrapping_add(0x9E37_79B9_7F4A_7C15);
    let mut z = *x;
    z = (z ^ (z >> 30)).wrapping_mul(0xBF58_476D_1CE4_E5B9);
    z = (z ^ (z >> 27)).wrapping_mul(0x94D0_49BB_1331_11EB);
    z ^ (z >> 31)
}

/// Mix a seed, a scenario name and a run index into one per-run seed.
pub fn run_seed(seed: u64, scenario: &str, run: u64) -> u64 {
    let mut h = seed ^ 0x5851_F42D_4C95_7F2D;
    for b in scenario.bytes() {
        h = (h ^ b as u64).wrapping_mul(0x0000_0100_0000_01B3);
    }
    let mut x = h ^ run.wrapping_mul(0xD6E8_FEB8_6659_FD93);
    splitmix64(&mut x)
}

impl Rng {
    pub fn new(seed: u64) -> Self {
        let mut x = seed;
        let s = [
            splitmix64(&mut x),
            splitmix64(&mut x),
            splitmix64(&mut x),
            splitmix64(&mut x),
        ];
        Rng { s }
    }

    pub fn next(&mut self) -> u64 {
        let r = self.s[1].wrapping_mul(5).rotate_left(7).wrapping_mul(9);
        let t = self.s[1] << 17;
        self.s[2] ^= self.s[0];
        self.s[3] ^= self.s[1];
        self.s[1] ^= self.s[2];
        self.s[0] ^= self.s[3];
        self.s[2] ^= t;
        self.s[3] = self.s[3].rotate_left(45);
        r
    }

    pub fn below(&mut self, n: u32) -> u32 {
        if n <= 1 {
            return 0;
        }
        ((self.next() >> 32).wrapping_mul(n as u64) >> 32) as u32
    }
}
