#!/bin/bash
# usage: tools/r10.sh <prop> ...   round-10 helper: offset = highest kept index of the property before this round
for p in "$@"; do
  off=$(cat /verif/out/r10-off-$p 2>/dev/null)
  if [ -z "$off" ]; then
    off=$(ls -d /verif/seeded/$p-* 2>/dev/null | sed "s/.*-//" | sort -n | tail -1); off=${off:-0}
    echo $off > /verif/out/r10-off-$p
  fi
  /verif/tools/round.sh /tmp/wt10- $off $p > /verif/out/r10-$p.log 2>&1
done
