//! S-gm (C03) and S-dirty/gm (C05, C16): guest memory as one flat sparse byte array, with and
//! without dirty-page tracking. One engine, generic over the region bitmap.

use super::stream::{gen_script, Beh, Scripted};
use super::{RunInfo, Scenario};
use crate::gmworld::{gen_gaddr, gen_layout, GmWorld, RegSpec};
use crate::json::J;
use crate::sim::{catch, cx, in_mode, Mode, OpOutcome};
use crate::sys::IoVerdict;
use crate::world::{bytes_of, mk, raw_read, LocalBuf, ATOMIC_NAMES, ATOMIC_SIZES, TYPE_NAMES, TYPE_SIZES};
use crate::{with_atomic_type, with_type};
use std::collections::BTreeSet;
use std::num::NonZeroUsize;
use std::os::fd::AsRawFd;
use std::sync::atomic::Ordering;
use vm_memory::bitmap::{AtomicBitmap, Bitmap};
use vm_memory::guest_memory::Error as GErr;
use vm_memory::{Bytes, GuestAddress, GuestMemory, GuestMemoryRegion, GuestRegionMmap, MemoryRegionAddress, VolatileSlice};

pub trait BmCtl: Bitmap + Sized + 'static {
    const TRACKED: bool;
    fn mkreg(spec: &RegSpec, file: Option<&std::fs::File>, ps: usize) -> GuestRegionMmap<Self>;
    fn reset_all(&self) {}
    fn reset_range(&self, _a: usize, _l: usize) {}
    fn harvest(&self) {}
}
impl BmCtl for () {
    const TRACKED: bool = false;
    fn mkreg(spec: &RegSpec, file: Option<&std::fs::File>, _ps: usize) -> GuestRegionMmap<()> {
        let fo = file.map(|f| vm_memory::FileOffset::new(f.try_clone().unwrap(), spec.file_off.unwrap()));
        GuestRegionMmap::<()>::from_range(GuestAddress(spec.base), spec.size, fo).expect("region")
    }
}
impl BmCtl for AtomicBitmap {
    const TRACKED: bool = true;
    #[cfg(not(feature = "xen"))]
    fn mkreg(spec: &RegSpec, file: Option<&std::fs::File>, ps: usize) -> GuestRegionMmap<Self> {
        match CTOR.with(|c| c.get()) {
            1 => tracked_region_std::<AtomicBitmap>(spec, file, false),
            2 => tracked_region_std::<AtomicBitmap>(spec, file, true),
            _ => tracked_region(spec, file, crate::world::grown_bitmap(spec.size, ps)),
        }
    }
    #[cfg(feature = "xen")]
    fn mkreg(_: &RegSpec, _: Option<&std::fs::File>, _: usize) -> GuestRegionMmap<Self> {
        unimplemented!("tracked regions with custom page sizes need the unix build")
    }
    fn reset_all(&self) {
        self.reset()
    }
    fn reset_range(&self, a: usize, l: usize) {
        self.reset_addr_range(a, l)
    }
    fn harvest(&self) {
        let _ = self.get_and_reset();
    }
}
impl BmCtl for Option<AtomicBitmap> {
    const TRACKED: bool = true;
    #[cfg(not(feature = "xen"))]
    fn mkreg(spec: &RegSpec, file: Option<&std::fs::File>, ps: usize) -> GuestRegionMmap<Self> {
        tracked_region(spec, file, Some(crate::world::grown_bitmap(spec.size, ps)))
    }
    #[cfg(feature = "xen")]
    fn mkreg(_: &RegSpec, _: Option<&std::fs::File>, _: usize) -> GuestRegionMmap<Self> {
        unimplemented!("tracked regions with custom page sizes need the unix build")
    }
    fn reset_all(&self) {
        self.as_ref().unwrap().reset()
    }
    fn reset_range(&self, a: usize, l: usize) {
        self.as_ref().unwrap().reset_addr_range(a, l)
    }
    fn harvest(&self) {
        let _ = self.as_ref().unwrap().get_and_reset();
    }
}

#[derive(Debug, Clone, PartialEq)]
enum GO {
    Count(usize),
    Unit,
    Bytes(Vec<u8>),
    Iga,
    Partial(usize, usize),
    Backend,
    Other(String),
    Panic(String),
}

fn go_err(e: GErr) -> GO {
    match e {
        GErr::InvalidGuestAddress(_) => GO::Iga,
        GErr::PartialBuffer { expected, completed } => GO::Partial(expected, completed),
        GErr::InvalidBackendAddress => GO::Backend,
        e => GO::Other(format!("{:?}", e)),
    }
}
fn go_n(o: OpOutcome<Result<usize, GErr>>) -> GO {
    match o {
        OpOutcome::Ok(Ok(n)) => GO::Count(n),
        OpOutcome::Ok(Err(e)) => go_err(e),
        OpOutcome::Panic(m) => GO::Panic(m),
        OpOutcome::Sim(s) => GO::Panic(format!("{:?}", s)),
    }
}
fn go_u(o: OpOutcome<Result<(), GErr>>) -> GO {
    match o {
        OpOutcome::Ok(Ok(())) => GO::Unit,
        OpOutcome::Ok(Err(e)) => go_err(e),
        OpOutcome::Panic(m) => GO::Panic(m),
        OpOutcome::Sim(s) => GO::Panic(format!("{:?}", s)),
    }
}
fn go_b(o: OpOutcome<Result<Vec<u8>, GErr>>) -> GO {
    match o {
        OpOutcome::Ok(Ok(b)) => GO::Bytes(b),
        OpOutcome::Ok(Err(e)) => go_err(e),
        OpOutcome::Panic(m) => GO::Panic(m),
        OpOutcome::Sim(s) => GO::Panic(format!("{:?}", s)),
    }
}

#[derive(Clone, Copy, PartialEq, Eq, Debug)]
enum Effect {
    /// completed write of the ranges in `wrote`
    Write,
    /// read, load, query, derivation, stream out of memory, or rejected before any byte
    NoWrite,
    /// failed part-way: soundness only
    PartialFail,
}

struct Step {
    desc: String,
    kind: &'static str,
    got: GO,
    exp: Option<GO>,
    wrote: Vec<(u64, usize)>,
    /// target ranges of descriptor reads that failed (conservatively marked whole)
    failed_fd: Vec<(u64, usize)>,
    effect: Effect,
    /// the model cannot predict the result (descriptor / scripted streams): contents are applied by the step itself
    free_result: bool,
}

/// a byte source that hands out at most `chunk` bytes per call (short reads without errors)
struct Chunked<'a> {
    data: &'a [u8],
    chunk: usize,
    calls: usize,
}

impl vm_memory::ReadVolatile for Chunked<'_> {
    fn read_volatile<B: vm_memory::bitmap::BitmapSlice>(&mut self, buf: &mut VolatileSlice<B>) -> Result<usize, vm_memory::volatile_memory::Error> {
        self.calls += 1;
        let n = buf.len().min(self.chunk).min(self.data.len());
        let w = buf.write(&self.data[..n], 0)?;
        self.data = &self.data[w..];
        Ok(w)
    }
}

/// a sink that accepts at most `chunk` bytes per call (short writes without errors)
struct ChunkedSink {
    got: Vec<u8>,
    chunk: usize,
}

impl vm_memory::WriteVolatile for ChunkedSink {
    fn write_volatile<B: vm_memory::bitmap::BitmapSlice>(&mut self, buf: &VolatileSlice<B>) -> Result<usize, vm_memory::volatile_memory::Error> {
        let n = buf.len().min(self.chunk);
        let mut tmp = vec![0u8; n];
        let r = buf.read(&mut tmp, 0)?;
        self.got.extend_from_slice(&tmp[..r]);
        Ok(r)
    }
}

fn gen_nlen(room: usize) -> usize {
    let c = cx();
    (match c.a(9) {
        0 => 1,
        1 => 8,
        2 => room,
        3 => room + 1 + c.a(5) as usize,
        4 => room.saturating_sub(1),
        5 => 9 + c.a(8) as usize,
        _ => 1 + c.a((room + 6).min(9000) as u32) as usize,
    })
    .clamp(1, 12_000)
}

fn pages_of(ranges: &[(usize, usize)], ps: usize) -> BTreeSet<usize> {
    let mut s = BTreeSet::new();
    for &(off, len) in ranges {
        if len == 0 {
            continue;
        }
        for p in off / ps..=(off + len - 1) / ps {
            s.insert(p);
        }
    }
    s
}

pub struct GmScen {
    pub tracked: bool,
}
pub static GM: GmScen = GmScen { tracked: false };
pub static DIRTY_GM: GmScen = GmScen { tracked: true };

impl Scenario for GmScen {
    fn name(&self) -> &'static str {
        if self.tracked {
            "S-dirty/gm"
        } else {
            "S-gm"
        }
    }
    fn run(&self) -> RunInfo {
        if !self.tracked {
            return run_gm::<()>();
        }
        #[cfg(not(feature = "xen"))]
        {
            if cx().a(3) == 0 {
                run_gm::<Option<AtomicBitmap>>()
            } else {
                run_gm::<AtomicBitmap>()
            }
        }
        #[cfg(feature = "xen")]
        {
            run_gm::<()>()
        }
    }
}

thread_local! {
    /// mappings of our own handed to build_raw (released when the world is torn down)
    static EXT_MAPS: std::cell::RefCell<Vec<(usize, usize)>> = const { std::cell::RefCell::new(Vec::new()) };
}

pub fn release_external_mappings() {
    EXT_MAPS.with(|m| {
        for (p, l) in m.borrow_mut().drain(..) {
            // SAFETY: our own mapping, no region refers to it any more.
            unsafe { libc::munmap(p as *mut libc::c_void, l) };
        }
    });
}

#[cfg(not(feature = "xen"))]
fn tracked_region<B: Bitmap>(spec: &RegSpec, file: Option<&std::fs::File>, bitmap: B) -> GuestRegionMmap<B> {
    let mut b = vm_memory::mmap::MmapRegionBuilder::new_with_bitmap(spec.size, bitmap).with_mmap_prot(libc::PROT_READ | libc::PROT_WRITE);
    b = match file {
        Some(f) => b.with_mmap_flags(libc::MAP_NORESERVE | libc::MAP_SHARED).with_file_offset(vm_memory::FileOffset::new(f.try_clone().unwrap(), spec.file_off.unwrap())),
        None => b.with_mmap_flags(libc::MAP_ANONYMOUS | libc::MAP_NORESERVE | libc::MAP_PRIVATE),
    };
    GuestRegionMmap::new(b.build().expect("region"), GuestAddress(spec.base)).expect("guest region")
}

/// the public constructors that size the bitmap themselves (page size = system page size)
#[cfg(not(feature = "xen"))]
fn tracked_region_std<B: vm_memory::bitmap::NewBitmap>(spec: &RegSpec, file: Option<&std::fs::File>, raw: bool) -> GuestRegionMmap<B> {
    if raw && file.is_none() {
        let len = spec.size.div_ceil(4096) * 4096;
        // SAFETY: plain anonymous mapping of our own, made with the real libc.
        let p = unsafe { libc::mmap(std::ptr::null_mut(), len, libc::PROT_READ | libc::PROT_WRITE, libc::MAP_PRIVATE | libc::MAP_ANONYMOUS, -1, 0) };
        assert!(p != libc::MAP_FAILED);
        EXT_MAPS.with(|m| m.borrow_mut().push((p as usize, len)));
        // SAFETY: the mapping stays until the world is torn down.
        let r = unsafe { vm_memory::MmapRegion::<B>::build_raw(p as *mut u8, spec.size, libc::PROT_READ | libc::PROT_WRITE, libc::MAP_PRIVATE | libc::MAP_ANONYMOUS) }.expect("build_raw");
        return GuestRegionMmap::new(r, GuestAddress(spec.base)).expect("guest region");
    }
    let fo = file.map(|f| vm_memory::FileOffset::new(f.try_clone().unwrap(), spec.file_off.unwrap()));
    GuestRegionMmap::<B>::from_range(GuestAddress(spec.base), spec.size, fo).expect("region")
}

thread_local! {
    /// which constructor the next tracked region is built with (0 builder, 1 from_range, 2 build_raw)
    static CTOR: std::cell::Cell<u8> = const { std::cell::Cell::new(0) };
}

fn build_world<B: BmCtl>(regs: Vec<RegSpec>, page_sizes: &[usize], ctors: &[u8]) -> GmWorld<B> {
    let mut k = 0;
    GmWorld::<B>::build_with(regs, 9, |spec, file| {
        let ps = page_sizes[k];
        CTOR.with(|c| c.set(ctors[k]));
        k += 1;
        B::mkreg(spec, file, ps)
    })
}

fn snapshot_pages<B: BmCtl>(w: &GmWorld<B>, ps: &[usize]) -> Vec<BTreeSet<usize>> {
    in_mode(Mode::Oracle, || {
        w.regs
            .iter()
            .enumerate()
            .map(|(i, r)| {
                let reg = w.gm.find_region(GuestAddress(r.base)).unwrap();
                let n = r.size.div_ceil(ps[i]);
                (0..n + 2).filter(|k| reg.bitmap().dirty_at(k * ps[i])).collect()
            })
            .collect()
    })
}

fn run_gm<B: BmCtl>() -> RunInfo {
    cx().mode = Mode::Setup;
    cx().cfg.anon_atomics = true;
    let tracked = B::TRACKED;
    let regs = gen_layout(if tracked { 3 } else { 4 }, true);
    let page_sizes: Vec<usize> = regs
        .iter()
        .map(|r| {
            let c = cx();
            match c.a(8) {
                0 => 1,
                1 => 2,
                2 => 3,
                3 => 16,
                4 => 64,
                5 => r.size + 1 + c.a(100) as usize,
                _ => 4096,
            }
        })
        .collect();
    // the public constructors (from_range, build_raw) size the bitmap with the system page size
    let ctors: Vec<u8> = regs.iter().map(|_| if tracked && std::any::TypeId::of::<B>() == std::any::TypeId::of::<AtomicBitmap>() && cx().a(4) == 0 { 1 + cx().a(2) as u8 } else { 0 }).collect();
    let page_sizes: Vec<usize> = page_sizes.iter().zip(ctors.iter()).map(|(&p, &c)| if c != 0 { 4096 } else { p }).collect();
    let mut w: GmWorld<B> = build_world::<B>(regs, &page_sizes, &ctors);
    let nact = 1 + cx().a(3);
    let nops = 1 + cx().a(if tracked { 10 } else { 14 }) as usize;
    let mut log: Vec<String> = Vec::new();
    let (mut ok_ops, mut rejected) = (0, 0);
    let prop_result = "C03";
    // pages owed a dirty mark: written since the last reset that covered them (tracked worlds)
    let mut owed: Vec<BTreeSet<usize>> = vec![BTreeSet::new(); w.regs.len()];
    for step in 0..nops {
        if !cx().violations.is_empty() {
            break;
        }
        cx().actor = cx().a(nact) as u8;
        // bitmap actor between operations
        if tracked && cx().a(4) == 0 {
            let i = cx().a(w.regs.len() as u32) as usize;
            let reg = w.gm.find_region(GuestAddress(w.regs[i].base)).unwrap();
            let what = cx().a(3);
            let (a, l) = (cx().a(w.regs[i].size as u32) as usize, 1 + cx().a(2 * page_sizes[i].min(5000) as u32) as usize);
            in_mode(Mode::Setup, || match what {
                0 => reg.bitmap().reset_all(),
                1 => reg.bitmap().reset_range(a, l),
                _ => reg.bitmap().harvest(),
            });
            log.push(format!("bitmap of region {}: {}", i, [format!("reset()"), format!("reset_addr_range({}, {})", a, l), format!("get_and_reset()")][what as usize]));
            // history form of C05: a page written since the last reset that covered it is still dirty
            if what == 1 {
                for p in a / page_sizes[i]..=(a + l - 1) / page_sizes[i] {
                    owed[i].remove(&p);
                }
            } else {
                owed[i].clear();
            }
            let now_pages = snapshot_pages(&w, &page_sizes);
            if let Some(p) = owed[i].iter().find(|p| !now_pages[i].contains(p)) {
                cx().violate("C05", "C05/reset-cleared-too-much", "a reset cleared a page outside its range".into(), format!("step {} {}: page {} of region {} (page size {}) was written after the last reset that covered it, the reset just made does not cover it, but it is clean now", step, log.last().unwrap(), p, i, page_sizes[i]));
                break;
            }
        }
        // now and then the map is replaced by one derived with remove_region / insert_region
        if !tracked && cx().a(6) == 0 {
            let r = if !w.unplugged.is_empty() && cx().a(2) == 0 {
                log.push("insert_region(previously removed region)".into());
                w.replug()
            } else if w.regs.len() > 1 {
                let i = cx().a(w.regs.len() as u32) as usize;
                log.push(format!("remove_region(region {} at {:#x})", i, w.regs[i].base));
                w.unplug(i)
            } else {
                Ok(())
            };
            if let Err(e) = r {
                cx().violate("C03", "C03/derive", "deriving a map of the same regions failed".into(), format!("step {} {}: {}", step, log.last().unwrap(), e));
                break;
            }
        }
        let before_pages = if tracked { snapshot_pages(&w, &page_sizes) } else { Vec::new() };
        let before_bytes: Vec<Vec<u8>> = w.regs.iter().enumerate().map(|(i, r)| raw_read(w.ptrs[i], r.size)).collect();
        cx().mode = Mode::Actor;
        cx().op_begin(step as u64);
        let st = one_op(&mut w, tracked, step);
        cx().op_end(step as u64, 0);
        cx().mode = Mode::Setup;
        cx().allowed.clear();
        cx().allowed_writes_only = false;
        let stray = cx().stray.take();
        cx().sys.io_script.clear();
        log.push(format!("a{} {} -> {:?}", cx().actor, st.desc, st.got));
        let line = log.last().unwrap().clone();
        // ----- C03: result and contents --------------------------------------------------------
        if let GO::Panic(m) = &st.got {
            cx().violate(prop_result, "C03/panic", format!("panic in {}", st.kind), format!("step {} {}: {}", step, line, m));
            break;
        }
        if let Some(sv) = stray {
            cx().violate(prop_result, "C03/stray-write", format!("{} wrote outside the bytes it names", st.kind), format!("step {} {}: {} (layout {:?})", step, line, sv, w.describe()));
            break;
        }
        if let Some(exp) = &st.exp {
            if &st.got != exp {
                cx().violate(prop_result, "C03/result", format!("{} result", st.kind), format!("step {} {}: the flat sparse byte-array model says {:?} (layout {:?})", step, line, exp, w.describe()));
            }
        }
        match st.got {
            GO::Count(_) | GO::Unit | GO::Bytes(_) => ok_ops += 1,
            _ => rejected += 1,
        }
        if let Some(bad) = w.verify() {
            cx().violate(prop_result, "C03/contents", format!("{} contents", st.kind), format!("step {} {}: {} (layout {:?})", step, line, bad, w.describe()));
            break;
        }
        if !tracked {
            continue;
        }
        // ----- C05: every changed byte is dirty in the owning region's bitmap ----------------------
        let after_pages = snapshot_pages(&w, &page_sizes);
        for (i, r) in w.regs.iter().enumerate() {
            let now = raw_read(w.ptrs[i], r.size);
            for k in 0..r.size {
                if now[k] != before_bytes[i][k] {
                    owed[i].insert(k / page_sizes[i]);
                }
                if now[k] != before_bytes[i][k] && !after_pages[i].contains(&(k / page_sizes[i])) {
                    cx().violate("C05", "C05/unmarked-write", format!("{} left a changed byte clean", st.kind), format!("step {} {}: byte {} of region {} (page size {}) changed but page {} is clean (layout {:?})", step, line, k, i, page_sizes[i], k / page_sizes[i], w.describe()));
                    break;
                }
            }
        }
        // a failed descriptor read reports at least everything it could have touched
        for &(ga, len) in &st.failed_fd {
            for k in 0..len {
                if let Some((i, off)) = w.find(ga + k as u64) {
                    if !after_pages[i].contains(&(off / page_sizes[i])) {
                        cx().violate("C05", "C05/failed-read-unmarked", format!("{} failed descriptor read", st.kind), format!("step {} {}: the read failed but byte {} of its target (region {} offset {}) is clean", step, line, k, i, off));
                        break;
                    }
                }
            }
        }
        // ----- C16: nothing else is marked -------------------------------------------------------------
        {
            // (a request that failed part-way owes marks only to C05, but even then no page that
            // overlaps none of the bytes it wrote may become dirty)
            for (i, r) in w.regs.iter().enumerate() {
                let mut ranges: Vec<(usize, usize)> = Vec::new();
                for &(ga, len) in st.wrote.iter().chain(st.failed_fd.iter()) {
                    for k in 0..len {
                        if let Some((ri, off)) = w.find(ga + k as u64) {
                            if ri == i {
                                ranges.push((off, 1));
                            }
                        }
                    }
                }
                let mut want = before_pages[i].clone();
                want.extend(pages_of(&ranges, page_sizes[i]));
                if after_pages[i] != want {
                    let extra: Vec<_> = after_pages[i].difference(&want).collect();
                    let missing: Vec<_> = want.difference(&after_pages[i]).collect();
                    if !extra.is_empty() {
                        cx().violate("C16", "C16/extra-mark", format!("{} marked too much", st.kind), format!("step {} {}: region {} (size {}, page size {}) pages {:?} became dirty although the operation wrote only {:?}{} (layout {:?})", step, line, i, r.size, page_sizes[i], extra, st.wrote, if st.failed_fd.is_empty() { "".to_string() } else { format!(" and failed descriptor reads targeted {:?}", st.failed_fd) }, w.describe()));
                    } else if !missing.is_empty() && st.effect == Effect::Write {
                        // pages overlapping written bytes whose value did not change are still owed a mark
                        cx().violate("C16", "C16/missing-mark", format!("{} marked too little", st.kind), format!("step {} {}: region {} pages {:?} overlap the written bytes {:?} but are clean", step, line, i, missing, st.wrote));
                    }
                }
            }
        }
    }
    cx().actor = 0;
    let desc = if cx().trace { Some(J::obj().set("layout", J::strs(w.describe())).set("page_sizes", J::Arr(page_sizes.iter().map(|&p| J::i(p)).collect())).set("bitmap", J::s(std::any::type_name::<B>())).set("history", J::strs(log.clone()))) } else { None };
    w.teardown();
    release_external_mappings();
    cx().mode = Mode::Oracle;
    RunInfo { nontrivial: ok_ops > 0 && rejected > 0, desc, cell: None }
}

/// The operation about to run may change only guest bytes [addr, addr + n) (clipped to the mapped run):
/// any write access or reference the library makes to registered guest RAM outside them is recorded
/// by the seam hooks (a concurrent update of such a byte by the guest would be lost).
fn allow_writes<B: BmCtl>(w: &GmWorld<B>, ranges: &[(u64, usize)]) {
    let c = cx();
    c.allowed.clear();
    for &(addr, n) in ranges {
        let mut k = 0usize;
        while k < n {
            let Some(a) = addr.checked_add(k as u64) else { break };
            let Some((i, off)) = w.find(a) else { break };
            let m = (w.regs[i].size - off).min(n - k);
            c.allowed.push((i as u32, off, off + m));
            k += m;
        }
    }
    if c.allowed.is_empty() {
        c.allowed.push((u32::MAX, 0, 0));
    }
    c.allowed_writes_only = true;
    c.stray = None;
}

/// complement of the current contents at `addr` (so that every written byte changes)
fn compl<B: BmCtl>(w: &GmWorld<B>, addr: u64, n: usize) -> Vec<u8> {
    (0..n)
        .map(|k| match addr.checked_add(k as u64).and_then(|a| w.find(a)) {
            Some((i, off)) => !w.model[i][off],
            None => 0xEE,
        })
        .collect()
}

fn one_op<B: BmCtl>(w: &mut GmWorld<B>, tracked: bool, step: usize) -> Step {
    let addr = gen_gaddr(&w.regs);
    let first = w.find(addr);
    let room = w.run(addr, 13_000);
    // descriptor and scripted-stream transfers (15..) run in the untracked worlds too: their
    // contents and stray-access oracles belong to C03
    let _ = tracked;
    let kind = cx().a(21);
    let ga = GuestAddress(addr);
    let mut st = Step { desc: String::new(), kind: "", got: GO::Unit, exp: None, wrote: vec![], failed_fd: vec![], effect: Effect::NoWrite, free_result: false };
    let _ = step;
    match kind {
        0 | 2 => {
            let n = gen_nlen(room);
            let data = compl(w, addr, n);
            let buf = LocalBuf::new(n, cx().a(8) as usize, |i| data[i]);
            allow_writes(w, &[(addr, room.min(n))]);
            if kind == 0 {
                st.kind = "write";
                st.desc = format!("write(buf[{}], {:#x})", n, addr);
                st.got = go_n(catch(|| w.gm.write(buf.as_ref(), ga)));
                st.exp = Some(if room == 0 { GO::Iga } else { GO::Count(room.min(n)) });
                st.effect = if room == 0 { Effect::NoWrite } else { Effect::Write };
            } else {
                st.kind = "write_slice";
                st.desc = format!("write_slice(buf[{}], {:#x})", n, addr);
                st.got = go_u(catch(|| w.gm.write_slice(buf.as_ref(), ga)));
                st.exp = Some(if room == 0 { GO::Iga } else if room < n { GO::Partial(n, room) } else { GO::Unit });
                st.effect = if room == 0 { Effect::NoWrite } else if room < n { Effect::PartialFail } else { Effect::Write };
            }
            let k = room.min(n);
            if k > 0 {
                w.model_write(addr, &data[..k]);
                st.wrote.push((addr, k));
            }
        }
        1 | 3 => {
            let n = gen_nlen(room);
            let mut buf = LocalBuf::new(n, cx().a(8) as usize, |_| 0xAA);
            let k = room.min(n);
            allow_writes(w, &[]);
            if kind == 1 {
                st.kind = "read";
                st.desc = format!("read(buf[{}], {:#x})", n, addr);
                st.got = go_n(catch(|| w.gm.read(buf.as_mut(), ga)));
                st.exp = Some(if room == 0 { GO::Iga } else { GO::Count(k) });
            } else {
                st.kind = "read_slice";
                st.desc = format!("read_slice(buf[{}], {:#x})", n, addr);
                st.got = go_u(catch(|| w.gm.read_slice(buf.as_mut(), ga)));
                st.exp = Some(if room == 0 { GO::Iga } else if room < n { GO::Partial(n, room) } else { GO::Unit });
            }
            if Some(&st.got) == st.exp.as_ref() && k > 0 && buf.as_ref()[..k] != w.model_read(addr, k)[..] {
                st.got = GO::Other(format!("wrong data {:02x?}", &buf.as_ref()[..k.min(16)]));
            }
        }
        4 | 5 => {
            let ti = cx().a(20) as usize;
            let sz = TYPE_SIZES[ti];
            let k = room.min(sz);
            allow_writes(w, &[(addr, if kind == 4 { k } else { 0 })]);
            if kind == 4 {
                st.kind = "write_obj";
                st.desc = format!("write_obj::<{}>({:#x})", TYPE_NAMES[ti], addr);
                let data = compl(w, addr, sz);
                st.got = with_type!(ti, T => go_u(catch(|| w.gm.write_obj::<T>(mk::<T>(&data), ga))));
                st.exp = Some(if room == 0 { GO::Iga } else if room < sz { GO::Partial(sz, room) } else { GO::Unit });
                st.effect = if room == 0 { Effect::NoWrite } else if room < sz { Effect::PartialFail } else { Effect::Write };
                if k > 0 {
                    w.model_write(addr, &data[..k]);
                    st.wrote.push((addr, k));
                }
            } else {
                st.kind = "read_obj";
                st.desc = format!("read_obj::<{}>({:#x})", TYPE_NAMES[ti], addr);
                st.got = with_type!(ti, T => go_b(catch(|| w.gm.read_obj::<T>(ga).map(|v| bytes_of(&v)))));
                st.exp = Some(if room == 0 { GO::Iga } else if room < sz { GO::Partial(sz, room) } else { GO::Bytes(w.model_read(addr, sz)) });
            }
        }
        6 | 7 => {
            let ti = cx().a(10) as usize;
            let sz = ATOMIC_SIZES[ti];
            // bias to aligned addresses
            let addr = if cx().a(3) != 0 { addr & !(sz as u64 - 1) } else { addr };
            let ga = GuestAddress(addr);
            let first = w.find(addr);
            let exp_ok = match first {
                None => Err(GO::Iga),
                Some((i, off)) => {
                    if off + sz > w.regs[i].size || (w.ptrs[i] as usize + off) % sz != 0 {
                        Err(GO::Backend)
                    } else {
                        Ok(())
                    }
                }
            };
            allow_writes(w, &[(addr, if kind == 6 && exp_ok.is_ok() { sz } else { 0 })]);
            if kind == 6 {
                st.kind = "store";
                st.desc = format!("store::<{}>({:#x})", ATOMIC_NAMES[ti], addr);
                let data = compl(w, addr, sz);
                st.got = with_atomic_type!(ti, T => go_u(catch(|| w.gm.store::<T>(mk::<T>(&data), ga, Ordering::SeqCst))));
                st.exp = Some(match &exp_ok {
                    Ok(()) => GO::Unit,
                    Err(e) => e.clone(),
                });
                if exp_ok.is_ok() {
                    w.model_write(addr, &data);
                    st.wrote.push((addr, sz));
                    st.effect = Effect::Write;
                }
            } else {
                st.kind = "load";
                st.desc = format!("load::<{}>({:#x})", ATOMIC_NAMES[ti], addr);
                st.got = with_atomic_type!(ti, T => go_b(catch(|| w.gm.load::<T>(ga, Ordering::Acquire).map(|v| bytes_of(&v)))));
                st.exp = Some(match &exp_ok {
                    Ok(()) => GO::Bytes(w.model_read(addr, sz)),
                    Err(e) => e.clone(),
                });
            }
        }
        8 | 9 => {
            let count = gen_nlen(room);
            let m = match cx().a(3) {
                0 => count,
                1 => count + 5,
                _ => 1 + cx().a(count as u32) as usize,
            };
            let data = compl(w, addr, m);
            let moved = room.min(count).min(m);
            // a plain byte slice, or a source that delivers short reads (as a socket or pipe does)
            let chunk = if cx().a(2) == 0 { usize::MAX } else { 1 + cx().a(40) as usize };
            let mut plain = &data[..];
            let mut chunked = Chunked { data: &data[..], chunk, calls: 0 };
            let tag = if chunk == usize::MAX { "&[u8]".to_string() } else { format!("short-reading source (<= {} bytes per call)", chunk) };
            allow_writes(w, &[(addr, moved)]);
            if kind == 8 {
                st.kind = "read_volatile_from(stream)";
                st.desc = format!("read_volatile_from({:#x}, {} of {} bytes, {})", addr, tag, m, count);
                st.got = if chunk == usize::MAX { go_n(catch(|| w.gm.read_volatile_from(ga, &mut plain, count))) } else { go_n(catch(|| w.gm.read_volatile_from(ga, &mut chunked, count))) };
                st.exp = Some(if room == 0 { GO::Iga } else { GO::Count(moved) });
                st.effect = if room == 0 { Effect::NoWrite } else { Effect::Write };
            } else {
                st.kind = "read_exact_volatile_from(stream)";
                st.desc = format!("read_exact_volatile_from({:#x}, {} of {} bytes, {})", addr, tag, m, count);
                st.got = if chunk == usize::MAX { go_u(catch(|| w.gm.read_exact_volatile_from(ga, &mut plain, count))) } else { go_u(catch(|| w.gm.read_exact_volatile_from(ga, &mut chunked, count))) };
                st.exp = Some(if room == 0 { GO::Iga } else if moved < count { GO::Partial(count, moved) } else { GO::Unit });
                st.effect = if room == 0 { Effect::NoWrite } else if moved < count { Effect::PartialFail } else { Effect::Write };
            }
            if moved > 0 {
                w.model_write(addr, &data[..moved]);
                st.wrote.push((addr, moved));
            }
        }
        10 | 11 => {
            let count = gen_nlen(room);
            let mut sink: Vec<u8> = vec![1, 2, 3];
            let moved = room.min(count);
            // a Vec, a sink that accepts only a few bytes per call (as a socket or pipe does), or a
            // cursor over a caller-provided buffer (the position must advance chunk by chunk)
            let sk = cx().a(3);
            let chunk = if sk == 1 { 1 + cx().a(40) as usize } else { usize::MAX };
            let mut csink = ChunkedSink { got: vec![1, 2, 3], chunk };
            let mut cbuf = vec![0u8; count + 11];
            cbuf[..3].copy_from_slice(&[1, 2, 3]);
            let mut cur = std::io::Cursor::new(&mut cbuf[..]);
            cur.set_position(3);
            let tag = match sk {
                0 => "Vec".to_string(),
                1 => format!("short-writing sink (<= {} bytes per call)", chunk),
                _ => "Cursor<&mut [u8]>".to_string(),
            };
            allow_writes(w, &[]);
            if kind == 10 {
                st.kind = "write_volatile_to(stream)";
                st.desc = format!("write_volatile_to({:#x}, {}, {})", addr, tag, count);
                st.got = match sk {
                    0 => go_n(catch(|| w.gm.write_volatile_to(ga, &mut sink, count))),
                    1 => go_n(catch(|| w.gm.write_volatile_to(ga, &mut csink, count))),
                    _ => go_n(catch(|| w.gm.write_volatile_to(ga, &mut cur, count))),
                };
                st.exp = Some(if room == 0 { GO::Iga } else { GO::Count(moved) });
            } else {
                st.kind = "write_all_volatile_to(stream)";
                st.desc = format!("write_all_volatile_to({:#x}, {}, {})", addr, tag, count);
                st.got = match sk {
                    0 => go_u(catch(|| w.gm.write_all_volatile_to(ga, &mut sink, count))),
                    1 => go_u(catch(|| w.gm.write_all_volatile_to(ga, &mut csink, count))),
                    _ => go_u(catch(|| w.gm.write_all_volatile_to(ga, &mut cur, count))),
                };
                st.exp = Some(if room == 0 { GO::Iga } else if moved < count { GO::Partial(count, moved) } else { GO::Unit });
            }
            let cpos = (cur.position() as usize).min(count + 11);
            let received: Vec<u8> = match sk {
                0 => sink.clone(),
                1 => csink.got.clone(),
                _ => cbuf[..cpos].to_vec(),
            };
            if Some(&st.got) == st.exp.as_ref() && (received.len() < 3 || received[3..] != w.model_read(addr, moved)[..]) {
                st.got = GO::Other("sink received wrong bytes".into());
            }
        }
        12 => {
            // get_slice + derivation chain + access through the derived slice
            let reg_room = first.map(|(i, off)| w.regs[i].size - off).unwrap_or(0);
            let count = match cx().a(4) {
                0 => reg_room,
                1 => reg_room + 1,
                _ => 1 + cx().a(reg_room.max(1) as u32) as usize,
            }
            .max(1);
            let (o1, o2) = (cx().a(count as u32 + 1) as usize, cx().a(8) as usize);
            let writing = cx().a(2) == 0;
            st.kind = if writing { "slice.write via get_slice" } else { "slice.read via get_slice" };
            st.desc = format!("get_slice({:#x}, {}).offset({}).subslice({}, rest).{}", addr, count, o1, o2, if writing { "write" } else { "read" });
            let fits = first.is_some() && count <= reg_room;
            let inner = count - o1.min(count);
            let o2c = o2.min(inner);
            let vlen = inner - o2c;
            let target = addr.wrapping_add((o1 + o2c) as u64);
            let n = 1 + cx().a(vlen as u32 + 4) as usize;
            let data = compl(w, target, n);
            let mut rbuf = vec![0xAAu8; n];
            allow_writes(w, &[(target, if writing && fits && vlen > 0 { n.min(vlen) } else { 0 })]);
            let r = catch(|| -> Result<usize, GErr> {
                let s = w.gm.get_slice(ga, count)?;
                let s = s.offset(o1.min(count)).map_err(GErr::from)?;
                let s = s.subslice(o2c, vlen).map_err(GErr::from)?;
                if writing {
                    s.write(&data, 0).map_err(GErr::from)
                } else {
                    s.read(&mut rbuf, 0).map_err(GErr::from)
                }
            });
            st.got = go_n(r);
            st.exp = Some(if first.is_none() {
                GO::Iga
            } else if !fits {
                GO::Backend
            } else if vlen == 0 {
                GO::Backend // a non-empty buffer at the end of an empty view is out of bounds
            } else {
                GO::Count(n.min(vlen))
            });
            if fits && vlen > 0 {
                let k = n.min(vlen);
                if writing {
                    w.model_write(target, &data[..k]);
                    st.wrote.push((target, k));
                    st.effect = Effect::Write;
                } else if st.got == GO::Count(k) && rbuf[..k] != w.model_read(target, k)[..] {
                    st.got = GO::Other("wrong data through the derived slice".into());
                }
            }
        }
        13 => {
            // region-level access through find_region
            let i = cx().a(w.regs.len() as u32) as usize;
            let size = w.regs[i].size;
            let off = match cx().a(4) {
                0 => size,
                1 => size - 1,
                _ => cx().a(size as u32) as usize,
            };
            let n = gen_nlen(size - off.min(size));
            // 0 write, 1 read, 2 write_obj::<u64>, 3 store::<u32>, 4 read_exact_volatile_from(&[u8]), 5 load::<u32>,
            // 6 read_slice, 7 write_slice, 8 read_obj::<u64>, 9 read_volatile_from(&[u8]), 10 write_volatile_to(Vec)
            let form = cx().a(11);
            let off = if form == 3 || form == 5 { off & !3 } else { off };
            let n = match form {
                2 | 8 => 8,
                3 | 5 => 4,
                _ => n,
            };
            let base = w.regs[i].base;
            let gaddr = base + off as u64;
            let names = ["region.write", "region.read", "region.write_obj", "region.store", "region.read_exact_volatile_from", "region.load", "region.read_slice", "region.write_slice", "region.read_obj", "region.read_volatile_from", "region.write_volatile_to"];
            st.kind = names[form as usize];
            st.desc = format!("find_region({:#x}).{}(len {}, {})", base, &st.kind[7..], n, off);
            let data = compl(w, gaddr, n);
            let mut rbuf = vec![0xAAu8; n];
            let reg = w.gm.find_region(GuestAddress(base)).unwrap();
            let at = MemoryRegionAddress(off as u64);
            let k = n.min(size - off.min(size));
            let aligned = (w.ptrs[i] as usize + off) % 4 == 0;
            allow_writes(
                w,
                &[(
                    gaddr,
                    match form {
                        0 | 2 | 7 | 9 if off < size => k,
                        3 if off + 4 <= size && aligned => 4,
                        4 if off.checked_add(n).map(|e| e <= size).unwrap_or(false) => n,
                        _ => 0,
                    },
                )],
            );
            match form {
                0 => {
                    st.got = go_n(catch(|| reg.write(&data, at)));
                    st.exp = Some(if off >= size { GO::Backend } else { GO::Count(k) });
                }
                1 => {
                    st.got = go_n(catch(|| reg.read(&mut rbuf, at)));
                    st.exp = Some(if off >= size { GO::Backend } else { GO::Count(k) });
                }
                2 => {
                    st.got = go_u(catch(|| reg.write_obj(mk::<u64>(&data), at)));
                    st.exp = Some(if off >= size { GO::Backend } else if k < 8 { GO::Partial(8, k) } else { GO::Unit });
                }
                3 => {
                    st.got = go_u(catch(|| reg.store(mk::<u32>(&data), at, Ordering::SeqCst)));
                    st.exp = Some(if off + 4 > size || !aligned { GO::Backend } else { GO::Unit });
                }
                4 => {
                    // the crate's own slice source (exact form overridden) or a short-reading source that
                    // goes through the default exact loop
                    let mut src = &data[..];
                    let chunk = 1 + cx().a(9) as usize;
                    let mut chunked = Chunked { data: &data[..], chunk, calls: 0 };
                    st.got = if cx().a(2) == 0 {
                        go_u(catch(|| reg.read_exact_volatile_from(at, &mut src, n)))
                    } else {
                        st.desc.push_str(&format!(" from a short-reading source (<= {} bytes per call)", chunk));
                        go_u(catch(|| reg.read_exact_volatile_from(at, &mut chunked, n)))
                    };
                    st.exp = Some(if off.checked_add(n).map(|e| e > size).unwrap_or(true) { GO::Backend } else { GO::Unit });
                }
                6 => {
                    st.got = go_u(catch(|| reg.read_slice(&mut rbuf, at)));
                    st.exp = Some(if off >= size { GO::Backend } else if k < n { GO::Partial(n, k) } else { GO::Unit });
                    if st.got == GO::Unit && k == n && rbuf[..] != w.model_read(gaddr, n)[..] {
                        st.got = GO::Other("wrong data".into());
                    }
                }
                7 => {
                    st.got = go_u(catch(|| reg.write_slice(&data, at)));
                    st.exp = Some(if off >= size { GO::Backend } else if k < n { GO::Partial(n, k) } else { GO::Unit });
                }
                9 => {
                    // up-to forms are capped at the end of the region and report what moved
                    let mut src = &data[..];
                    st.got = go_n(catch(|| reg.read_volatile_from(at, &mut src, n)));
                    // (a transfer that starts exactly at the end moves nothing; `off` is never past the end here)
                    st.exp = Some(GO::Count(k));
                }
                10 => {
                    let mut sink: Vec<u8> = Vec::new();
                    st.got = go_n(catch(|| reg.write_volatile_to(at, &mut sink, n)));
                    st.exp = Some(GO::Count(k));
                    if st.got == GO::Count(k) && off < size && sink[..] != w.model_read(gaddr, k)[..] {
                        st.got = GO::Other("sink received wrong bytes".into());
                    }
                }
                8 => {
                    st.got = go_b(catch(|| reg.read_obj::<u64>(at).map(|v| bytes_of(&v))));
                    st.exp = Some(if off >= size { GO::Backend } else if k < 8 { GO::Partial(8, k) } else { GO::Bytes(w.model_read(gaddr, 8)) });
                }
                _ => {
                    st.got = go_b(catch(|| reg.load::<u32>(at, Ordering::SeqCst).map(|v| bytes_of(&v))));
                    st.exp = Some(if off + 4 > size || !aligned { GO::Backend } else { GO::Bytes(w.model_read(gaddr, 4)) });
                }
            }
            // what the model says was written
            let wrote = match form {
                0 | 9 if off < size => k,
                2 | 7 if off < size => k,
                3 if off + 4 <= size && aligned => 4,
                4 if off + n <= size => n,
                _ => 0,
            };
            if wrote > 0 {
                w.model_write(gaddr, &data[..wrote]);
                st.wrote.push((gaddr, wrote));
                st.effect = if (form == 2 && k < 8) || (form == 7 && k < n) { Effect::PartialFail } else { Effect::Write };
            }
            if form == 1 && off < size && st.got == GO::Count(k) && rbuf[..k] != w.model_read(gaddr, k)[..] {
                st.got = GO::Other("wrong data".into());
            }
        }
        14 => {
            // queries: must not change or mark anything
            st.kind = "queries";
            let n = gen_nlen(room);
            st.desc = format!("check_range/address_in_range/get_host_address/find_region({:#x}, {})", addr, n);
            allow_writes(w, &[]);
            let r = catch(|| {
                let a = w.gm.check_range(ga, n);
                let b = w.gm.address_in_range(ga);
                let c = w.gm.get_host_address(ga).is_ok();
                let d = w.gm.find_region(ga).is_some();
                let e = w.gm.get_slice(ga, n.min(64)).map(|s| s.len()).unwrap_or(0);
                (a, b, c, d, e)
            });
            st.got = match r {
                OpOutcome::Ok((a, b, c, d, _)) => {
                    if a == (room >= n) && b == first.is_some() && c == b && d == b {
                        GO::Unit
                    } else {
                        GO::Other(format!("check_range={} address_in_range={} host={} find={}", a, b, c, d))
                    }
                }
                OpOutcome::Panic(m) => GO::Panic(m),
                OpOutcome::Sim(s) => GO::Panic(format!("{:?}", s)),
            };
            st.exp = Some(GO::Unit);
        }
        19 => {
            // guest-to-guest copy through accessors derived from get_slice: a typed element array or a
            // plain slice copied into another slice of guest memory
            let addr2 = gen_gaddr(&w.regs);
            let room1 = first.map(|(i, off)| w.regs[i].size - off).unwrap_or(0);
            let room2 = w.find(addr2).map(|(i, off)| w.regs[i].size - off).unwrap_or(0);
            let ti = cx().a(20) as usize;
            let sz = TYPE_SIZES[ti];
            let typed = cx().a(3) != 0;
            let nel = if room1 / sz == 0 { 0 } else { 1 + cx().a((room1 / sz).min(40) as u32) as usize };
            let long = cx().a(4) == 0;
            let slen = if typed { nel * sz } else { (1 + cx().a(room1.max(1).min(if long { 7000 } else { 200 }) as u32) as usize).min(room1) };
            let dlen = if room2 == 0 { 0 } else { (1 + cx().a(room2.min(if long { 7000 } else { 300 }) as u32) as usize).min(room2) };
            st.kind = if typed { "array.copy_to_volatile_slice between guest ranges" } else { "slice.copy_to_volatile_slice between guest ranges" };
            st.desc = format!("get_slice({:#x}, {}){}.copy_to_volatile_slice(get_slice({:#x}, {}))", addr, slen, if typed { format!(".get_array_ref::<{}>(0, {})", TYPE_NAMES[ti], nel) } else { String::new() }, addr2, dlen);
            let k = slen.min(dlen);
            // overlapping ranges are allowed: the copy behaves like memmove (the bytes read are those that
            // were there before the copy began)
            if addr < addr2.wrapping_add(dlen as u64) && addr2 < addr.wrapping_add(slen as u64) {
                cx().count("probe.guest_to_guest_copy_between_overlapping_ranges");
            }
            if slen == 0 || dlen == 0 {
                st.desc.push_str(" skipped");
                st.exp = Some(GO::Unit);
            } else {
                let src_bytes = w.model_read(addr, k);
                allow_writes(w, &[(addr2, k)]);
                let r = catch(|| -> Result<(), GErr> {
                    let s = w.gm.get_slice(ga, slen)?;
                    let d = w.gm.get_slice(GuestAddress(addr2), dlen)?;
                    if typed {
                        crate::with_type!(ti, T => vm_memory::VolatileMemory::get_array_ref::<T>(&s, 0, nel).map_err(GErr::from)?.copy_to_volatile_slice(d));
                    } else {
                        s.copy_to_volatile_slice(d);
                    }
                    Ok(())
                });
                st.got = go_u(r);
                st.exp = Some(GO::Unit);
                w.model_write(addr2, &src_bytes);
                st.wrote.push((addr2, k));
                st.effect = Effect::Write;
            }
        }
        15 | 16 => {
            // descriptor read into guest memory with injected syscall results
            let count = gen_nlen(room);
            let exact = kind == 16;
            let fdata = compl(w, addr, count + 8);
            let file = crate::gmworld::memfd(0);
            // SAFETY: writing our own buffer into our own descriptor.
            unsafe {
                libc::write(file.as_raw_fd(), fdata.as_ptr() as *const libc::c_void, fdata.len());
                libc::lseek(file.as_raw_fd(), 0, libc::SEEK_SET);
            }
            let mut file = file;
            let nverd = 1 + cx().a(4) as usize;
            let verdicts: Vec<IoVerdict> = (0..nverd)
                .map(|_| match cx().a(8) {
                    0 | 1 => IoVerdict::Shorten(1 + cx().a(64) as usize),
                    2 => IoVerdict::Errno(libc::EINTR),
                    3 => IoVerdict::Errno([libc::EIO, libc::EFAULT, libc::EBADF][cx().a(3) as usize]),
                    4 => IoVerdict::Zero,
                    _ => IoVerdict::Pass,
                })
                .collect();
            cx().sys.io_script = verdicts.iter().copied().collect();
            cx().sys.io_log.clear();
            st.kind = if exact { "read_exact_volatile_from(File)" } else { "read_volatile_from(File)" };
            st.desc = format!("{}({:#x}, File, {}) syscall verdicts {:?}", st.kind, addr, count, verdicts);
            allow_writes(w, &[(addr, room.min(count))]);
            st.got = if exact { go_u(catch(|| w.gm.read_exact_volatile_from(ga, &mut file, count))) } else { go_n(catch(|| w.gm.read_volatile_from(ga, &mut file, count))) };
            st.free_result = true;
            // apply what the system calls really did
            let calls = std::mem::take(&mut cx().sys.io_log);
            let mut fpos = 0usize;
            for c in &calls {
                let host = c.buf;
                let gaddr = w.regs.iter().enumerate().find_map(|(i, r)| if host >= w.ptrs[i] as usize && host < w.ptrs[i] as usize + r.size { Some(r.base + (host - w.ptrs[i] as usize) as u64) } else { None });
                let Some(g) = gaddr else { continue };
                if c.ret > 0 {
                    let n = c.ret as usize;
                    w.model_write(g, &fdata[fpos..fpos + n]);
                    st.wrote.push((g, n));
                    fpos += n;
                } else if c.ret < 0 {
                    let reach = w.run(g, c.len);
                    st.failed_fd.push((g, reach.min(c.len)));
                    cx().count("probe.failing_descriptor_read");
                }
            }
            st.effect = Effect::Write;
            if let GO::Other(_) = st.got {
                // an I/O error is a legitimate outcome here
                st.got = GO::Unit;
            }
        }
        17 => {
            // stream write out of memory into a descriptor: must mark nothing
            let count = gen_nlen(room);
            let mut file = crate::gmworld::memfd(0);
            let exact = cx().a(2) == 0;
            cx().sys.io_script = (0..cx().a(3)).map(|_| if cx().a(2) == 0 { IoVerdict::Shorten(1 + cx().a(16) as usize) } else { IoVerdict::Errno(libc::EINTR) }).collect();
            cx().sys.io_log.clear();
            st.kind = if exact { "write_all_volatile_to(File)" } else { "write_volatile_to(File)" };
            st.desc = format!("{}({:#x}, File, {})", st.kind, addr, count);
            allow_writes(w, &[]);
            st.got = if exact { go_u(catch(|| w.gm.write_all_volatile_to(ga, &mut file, count))) } else { go_n(catch(|| w.gm.write_volatile_to(ga, &mut file, count))) };
            st.free_result = true;
            let moved: isize = cx().sys.io_log.iter().filter(|c| c.ret > 0).map(|c| c.ret).sum();
            let mut got = vec![0u8; moved.max(0) as usize + 4];
            // SAFETY: pread into our own buffer.
            let n = unsafe { libc::pread(file.as_raw_fd(), got.as_mut_ptr() as *mut libc::c_void, got.len(), 0) };
            got.truncate(n.max(0) as usize);
            if n as usize <= room && got[..] != w.model_read(addr, got.len())[..] {
                st.got = GO::Other("the descriptor received wrong bytes".into());
                st.exp = Some(GO::Unit);
            } else {
                // short and interrupted write(2) calls never change the outcome: the flat model decides it
                st.free_result = false;
                st.exp = Some(if room == 0 {
                    GO::Iga
                } else if exact {
                    if room < count {
                        GO::Partial(count, room)
                    } else {
                        GO::Unit
                    }
                } else {
                    GO::Count(count.min(room))
                });
            }
        }
        20 => {
            // try_access driven directly: the caller's callback is the endpoint of the transfer and may
            // take less than it is offered, stop (Ok(0)), fail, or claim more than the request holds
            let count = gen_nlen(room);
            let writing = cx().a(2) == 0;
            let nscript = cx().a(5) as usize;
            // 0 full, 1 short, 2 stop, 3 error, 4 over-claim (only when the chunk is the last of the request)
            let script: Vec<(u8, usize)> = (0..nscript)
                .map(|_| {
                    let b = match cx().a(9) {
                        0 | 1 | 2 => 1,
                        3 => 2,
                        4 => 3,
                        5 => 4,
                        _ => 0,
                    };
                    (b, 1 + cx().a(48) as usize)
                })
                .collect();
            let data = compl(w, addr, count);
            let mut rdata = vec![0xAAu8; count];
            // (offset, offered length, region base, offset in region, bytes taken)
            let mut calls: Vec<(usize, usize, u64, u64, usize)> = Vec::new();
            st.kind = if writing { "try_access(writing callback)" } else { "try_access(reading callback)" };
            st.desc = format!("try_access({}, {:#x}, callback {:?})", count, addr, script);
            allow_writes(w, &[(addr, if writing { room.min(count) } else { 0 })]);
            let r = catch(|| {
                w.gm.try_access(count, ga, |offset, len, start, region| {
                    let beh = script.get(calls.len()).copied().unwrap_or((0, 0));
                    let want = match beh.0 {
                        1 => beh.1.min(len),
                        2 | 3 => 0,
                        _ => len,
                    };
                    let mut taken = 0;
                    if want > 0 {
                        let end = offset.checked_add(want).filter(|&e| e <= count);
                        match end {
                            Some(end) if writing => taken = region.write(&data[offset..end], start)?,
                            Some(end) => taken = region.read(&mut rdata[offset..end], start)?,
                            None => {}
                        }
                    }
                    calls.push((offset, len, region.start_addr().0, start.0, taken));
                    match beh.0 {
                        3 => Err(GErr::HostAddressNotAvailable),
                        2 => Ok(0),
                        4 if offset.checked_add(len) == Some(count) => Ok(taken + 1),
                        _ => Ok(taken),
                    }
                })
            });
            st.got = go_n(r);
            // what the flat model says the callback is offered, chunk by chunk
            let mut exp_calls: Vec<(usize, usize, u64, u64, usize)> = Vec::new();
            let (mut total, mut cur) = (0usize, addr);
            let mut res: Option<GO> = None;
            while let Some((i, off)) = w.find(cur) {
                let offered = (w.regs[i].size - off).min(count - total);
                let beh = script.get(exp_calls.len()).copied().unwrap_or((0, 0));
                let want = match beh.0 {
                    1 => beh.1.min(offered),
                    2 | 3 => 0,
                    _ => offered,
                };
                exp_calls.push((total, offered, w.regs[i].base, off as u64, want));
                if beh.0 == 3 {
                    res = Some(go_err(GErr::HostAddressNotAvailable));
                    break;
                }
                if beh.0 == 2 {
                    res = Some(GO::Count(total));
                    break;
                }
                let ret = if beh.0 == 4 && total + offered == count { want + 1 } else { want };
                total += ret;
                if total > count {
                    res = Some(go_err(GErr::CallbackOutOfRange));
                    break;
                }
                if total == count {
                    res = Some(GO::Count(count));
                    break;
                }
                match cur.checked_add(ret as u64) {
                    Some(c) => cur = c,
                    None => break,
                }
            }
            let res = res.unwrap_or(if total == 0 { GO::Iga } else { GO::Count(total) });
            if exp_calls.len() > 1 {
                cx().count("probe.try_access_callback_called_more_than_once");
            }
            if exp_calls.iter().any(|c| c.4 < c.1) && exp_calls.len() > 1 {
                cx().count("probe.try_access_callback_took_less_than_offered");
            }
            let mut any = false;
            for c in &exp_calls {
                if c.4 > 0 && writing {
                    w.model_write(addr + c.0 as u64, &data[c.0..c.0 + c.4]);
                    st.wrote.push((addr + c.0 as u64, c.4));
                    any = true;
                }
            }
            st.effect = if !any {
                Effect::NoWrite
            } else if matches!(res, GO::Count(_)) {
                Effect::Write
            } else {
                Effect::PartialFail
            };
            if calls != exp_calls {
                let k = calls.iter().zip(exp_calls.iter()).position(|(a, b)| a != b).unwrap_or(calls.len().min(exp_calls.len()));
                st.got = GO::Other(format!("callback invocation {} was (offset, length, region base, region offset, taken) = {:?}; the flat model says {:?}", k, calls.get(k), exp_calls.get(k)));
            } else if !writing {
                for c in &exp_calls {
                    if c.4 > 0 && rdata[c.0..c.0 + c.4] != w.model_read(addr + c.0 as u64, c.4)[..] {
                        st.got = GO::Other("the callback read wrong bytes from the region it was offered".into());
                    }
                }
            }
            st.exp = Some(res);
        }
        _ => {
            // scripted reader that may fail part-way
            let count = gen_nlen(room);
            let script = gen_script(5);
            let mut ep = Scripted::new(script.clone(), count + 32, count + script.len() + 64);
            let exact = cx().a(2) == 0;
            st.kind = if exact { "read_exact_volatile_from(scripted)" } else { "read_volatile_from(scripted)" };
            st.desc = format!("{}({:#x}, scripted {:?}, {})", st.kind, addr, script, count);
            allow_writes(w, &[(addr, room.min(count))]);
            st.got = if exact { go_u(catch(|| w.gm.read_exact_volatile_from(ga, &mut ep, count))) } else { go_n(catch(|| w.gm.read_volatile_from(ga, &mut ep, count))) };
            st.free_result = true;
            let moved: usize = ep.calls.iter().map(|c| c.n).sum();
            let moved = moved.min(room);
            if moved > 0 {
                let data: Vec<u8> = (0..moved).map(super::stream::stream_byte).collect();
                w.model_write(addr, &data);
                st.wrote.push((addr, moved));
            }
            if script.iter().any(|b| matches!(b, Beh::Hard(_) | Beh::Zero)) && moved > 0 {
                cx().count("probe.scripted_reader_failed_part_way");
            }
            st.effect = if matches!(st.got, GO::Count(_) | GO::Unit) { Effect::Write } else { Effect::PartialFail };
            if let GO::Other(_) | GO::Partial(..) | GO::Iga = st.got {
                st.got = GO::Unit;
            }
        }
    }
    // probes
    if let Some(&(ga, len)) = st.wrote.first() {
        if len > 0 {
            if let (Some((a, _)), Some((b, _))) = (w.find(ga), w.find(ga + len as u64 - 1)) {
                if b > a + 1 {
                    cx().count("probe.transfer_crossed_two_boundaries");
                } else if a != b {
                    cx().count("probe.transfer_crossed_one_boundary");
                }
            }
            if let Some((i, off)) = w.find(ga + len as u64 - 1) {
                if off + 1 == w.regs[i].size {
                    cx().count("probe.transfer_ended_exactly_at_a_region_end");
                }
                if w.regs[i].base.checked_add(w.regs[i].size as u64) == Some(u64::MAX) {
                    cx().count("probe.access_in_region_ending_at_the_top");
                }
            }
        }
    }
    st
}

#[allow(dead_code)]
fn _unused(_: VolatileSlice<'_, ()>) {}
