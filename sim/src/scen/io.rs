//! S-io: volatile stream adapters behave like their std::io counterparts (C13).
//! In-memory adapters are compared call by call with a std twin; descriptor adapters are driven
//! through the read(2)/write(2) seam whose per-call outcome the tape decides.

use super::{RunInfo, Scenario};
use crate::json::J;
use crate::sim::{catch, cx, Mode, OpOutcome};
use crate::sys::IoVerdict;
use crate::world::{raw_read, raw_write, Arena};
use std::io::{Cursor, ErrorKind, Read, Write};
use std::os::fd::{AsFd, AsRawFd, FromRawFd, OwnedFd};
use vm_memory::volatile_memory::Error as VErr;
use vm_memory::{ReadVolatile, VolatileSlice, WriteVolatile};

pub struct IoMem;
pub static IOMEM: IoMem = IoMem;
pub struct IoFd;
pub static IOFD: IoFd = IoFd;

#[derive(Debug, Clone, PartialEq)]
enum R {
    N(usize),
    Unit,
    E(ErrorKind),
    Os(i32),
    Panic(String),
}

fn vres_n(r: OpOutcome<Result<usize, VErr>>) -> R {
    match r {
        OpOutcome::Ok(Ok(n)) => R::N(n),
        OpOutcome::Ok(Err(VErr::IOError(e))) => match e.raw_os_error() {
            Some(c) => R::Os(c),
            None => R::E(e.kind()),
        },
        OpOutcome::Ok(Err(e)) => R::Panic(format!("non-I/O error {:?}", e)),
        OpOutcome::Panic(m) => R::Panic(m),
        OpOutcome::Sim(s) => R::Panic(format!("{:?}", s)),
    }
}
fn vres_u(r: OpOutcome<Result<(), VErr>>) -> R {
    match r {
        OpOutcome::Ok(Ok(())) => R::Unit,
        OpOutcome::Ok(Err(VErr::IOError(e))) => match e.raw_os_error() {
            Some(c) => R::Os(c),
            None => R::E(e.kind()),
        },
        OpOutcome::Ok(Err(e)) => R::Panic(format!("non-I/O error {:?}", e)),
        OpOutcome::Panic(m) => R::Panic(m),
        OpOutcome::Sim(s) => R::Panic(format!("{:?}", s)),
    }
}
fn sres_n(r: std::io::Result<usize>) -> R {
    match r {
        Ok(n) => R::N(n),
        Err(e) => R::E(e.kind()),
    }
}
fn sres_u(r: std::io::Result<()>) -> R {
    match r {
        Ok(()) => R::Unit,
        Err(e) => R::E(e.kind()),
    }
}

fn gen_buf_len() -> usize {
    let c = cx();
    if c.a(24) == 0 {
        return 0; // std accepts empty buffers too (one zero-length system call on descriptors)
    }
    match c.a(8) {
        0 => 8,
        1 => 9,
        2 => 7,
        3 => 1,
        4 => 16 + c.a(40) as usize,
        _ => 1 + c.a(24) as usize,
    }
}

struct VBuf {
    arena: Arena,
    ptr: *mut u8,
    len: usize,
}

impl VBuf {
    fn new(len: usize, fill: impl Fn(usize) -> u8) -> VBuf {
        let arena = Arena::get(2);
        let ptr = arena.place(len, cx().a(8) as usize, cx().a(2) == 0);
        let data: Vec<u8> = (0..len).map(fill).collect();
        raw_write(ptr, &data);
        cx().add_range(arena.data() as usize, arena.data_len(), 0, true);
        let base = ptr as usize - arena.data() as usize;
        cx().allowed = vec![(0, base, base + len)];
        cx().stray = None;
        VBuf { arena, ptr, len }
    }
    fn vs(&self) -> VolatileSlice<'static, ()> {
        // SAFETY: the arena outlives the slice within this call.
        unsafe { VolatileSlice::new(self.ptr, self.len) }
    }
    fn contents(&self) -> Vec<u8> {
        raw_read(self.ptr, self.len)
    }
    /// returns a description of a frame violation, if any
    fn finish(self) -> Option<String> {
        cx().allowed.clear();
        cx().clear_ranges();
        let mut bad = cx().stray.take();
        if bad.is_none() {
            if let Some(i) = self.arena.canaries_intact(self.ptr, self.len) {
                bad = Some(format!("arena byte {} next to the {}-byte buffer was overwritten", i, self.len));
            }
        }
        self.arena.release();
        bad
    }
}

fn data_byte(i: usize) -> u8 {
    (i as u8).wrapping_mul(3).wrapping_add(17)
}

/// One large transfer into a `Vec` sink next to `Write::write` / `write_all` on a std `Vec`: counts and
/// contents must agree for buffers around 64 KiB and 1 MiB too (the histories below use small buffers).
fn big_vec_twin() {
    let c = cx();
    let len = [65535usize, 65536, 65537, 200_000, 1 << 20, (1 << 20) + 1, (1 << 20) + 4097][c.a(7) as usize];
    let exact = c.a(2) == 0;
    c.count("probe.twin_transfer_of_64_kib_or_more_into_a_vec");
    let mut mem: Vec<u8> = (0..len).map(|i| data_byte(i) ^ (i >> 9) as u8).collect();
    let copy = mem.clone();
    let mut vvec: Vec<u8> = vec![1, 2, 3];
    let mut svec: Vec<u8> = vec![1, 2, 3];
    cx().mode = Mode::Actor;
    cx().op_begin(9999);
    // SAFETY: `mem` is alive and not otherwise used during the call.
    let v = unsafe { VolatileSlice::new(mem.as_mut_ptr(), len) };
    let (vr, sr) = if exact { (vres_u(catch(|| vvec.write_all_volatile(&v))), sres_u(svec.write_all(&copy))) } else { (vres_n(catch(|| vvec.write_volatile(&v))), sres_n(svec.write(&copy))) };
    cx().op_end(9999, 0);
    cx().mode = Mode::Setup;
    let what = if exact { "write_all_volatile" } else { "write_volatile" };
    if vr != sr {
        cx().violate("C13", "C13/twin", "result Vec<u8> (write)".into(), format!("Vec.{}(buf[{}]) returned {:?}; std's Vec returns {:?}", what, len, vr, sr));
    } else if vvec != svec {
        let k = vvec.iter().zip(svec.iter()).position(|(a, b)| a != b).unwrap_or(vvec.len().min(svec.len()));
        cx().violate("C13", "C13/twin", "stream state Vec<u8> (write)".into(), format!("Vec.{}(buf[{}]): the sink holds {} byte(s), std's holds {}; first difference at {}", what, len, vvec.len(), svec.len(), k));
    } else if mem != copy {
        cx().violate("C13", "C13/twin", "source changed Vec<u8> (write)".into(), format!("Vec.{}(buf[{}]) changed the volatile memory it was reading from", what, len));
    }
}

impl Scenario for IoMem {
    fn name(&self) -> &'static str {
        "S-io/memory"
    }

    fn run(&self) -> RunInfo {
        cx().mode = Mode::Setup;
        if cx().a(300) == 0 {
            big_vec_twin();
        }
        let kind = cx().a(6);
        let slen = match cx().a(5) {
            0 => 0,
            1 => 8,
            _ => cx().a(65) as usize,
        };
        let ncalls = 1 + cx().a(12) as usize;
        let mut log: Vec<String> = Vec::new();
        let names = ["&[u8] (read)", "&mut [u8] (write)", "Vec<u8> (write)", "Cursor<&[u8]> (read)", "Cursor<Vec<u8>> (read)", "Cursor<&mut [u8]> (write/read)"];
        let name = names[kind as usize];
        let data: Vec<u8> = (0..slen).map(data_byte).collect();
        let mut ok_calls = 0;
        let mut short_or_err = 0;
        // backing stores
        let mut vback = data.clone();
        let mut sback = data.clone();
        let mut vvec: Vec<u8> = data[..slen.min(5)].to_vec();
        let mut svec: Vec<u8> = vvec.clone();
        // positions for the slice-like adapters are kept as "consumed" counters
        let mut vpos = 0usize; // volatile side
        let mut spos = 0usize; // std side
        let mut vcur: u64 = 0;
        let mut scur: u64 = 0;
        let viol = |what: &str, msg: String| cx().violate("C13", "C13/twin", format!("{} {}", what, name), msg);
        for call in 0..ncalls {
            if !cx().violations.is_empty() {
                break;
            }
            let blen = gen_buf_len();
            let exact = cx().a(3) == 0;
            // cursor repositioning, including past the end
            if kind >= 3 && cx().a(4) == 0 {
                let p = match cx().a(4) {
                    0 => 0,
                    1 => slen as u64,
                    2 => slen as u64 + 1 + cx().a(9) as u64,
                    _ => cx().a(slen as u32 + 1) as u64,
                };
                vcur = p;
                scur = p;
                log.push(format!("set_position({})", p));
            }
            let stamp = call * 7 + 1;
            cx().mode = Mode::Actor;
            cx().op_begin(call as u64);
            let vb = VBuf::new(blen, |i| data_byte(i + stamp) ^ 0x5A);
            let init = vb.contents();
            let mut sbuf = init.clone();
            let (vr, sr): (R, R);
            let desc: String;
            match kind {
                0 => {
                    let mut vs_: &[u8] = &data[vpos..];
                    let mut ss: &[u8] = &data[spos..];
                    let mut v = vb.vs();
                    if exact {
                        desc = format!("read_exact_volatile(buf[{}])", blen);
                        vr = vres_u(catch(|| vs_.read_exact_volatile(&mut v)));
                        sr = sres_u(ss.read_exact(&mut sbuf));
                    } else {
                        desc = format!("read_volatile(buf[{}])", blen);
                        vr = vres_n(catch(|| vs_.read_volatile(&mut v)));
                        sr = sres_n(ss.read(&mut sbuf));
                    }
                    vpos = slen - vs_.len();
                    spos = slen - ss.len();
                }
                1 => {
                    let v = vb.vs();
                    let vl = vback.len();
                    let sl = sback.len();
                    let mut vs_: &mut [u8] = &mut vback[vpos..];
                    let mut ss: &mut [u8] = &mut sback[spos..];
                    if exact {
                        desc = format!("write_all_volatile(buf[{}])", blen);
                        vr = vres_u(catch(|| vs_.write_all_volatile(&v)));
                        sr = sres_u(ss.write_all(&sbuf));
                    } else {
                        desc = format!("write_volatile(buf[{}])", blen);
                        vr = vres_n(catch(|| vs_.write_volatile(&v)));
                        sr = sres_n(ss.write(&sbuf));
                    }
                    vpos = vl - vs_.len();
                    spos = sl - ss.len();
                }
                2 => {
                    let v = vb.vs();
                    if exact {
                        desc = format!("Vec.write_all_volatile(buf[{}])", blen);
                        vr = vres_u(catch(|| vvec.write_all_volatile(&v)));
                        sr = sres_u(svec.write_all(&sbuf));
                    } else {
                        desc = format!("Vec.write_volatile(buf[{}])", blen);
                        vr = vres_n(catch(|| vvec.write_volatile(&v)));
                        sr = sres_n(svec.write(&sbuf));
                    }
                }
                3 | 4 => {
                    let mut v = vb.vs();
                    let (a, b, pv, ps);
                    if kind == 3 {
                        let mut vc = Cursor::new(&data[..]);
                        let mut sc = Cursor::new(&data[..]);
                        vc.set_position(vcur);
                        sc.set_position(scur);
                        if exact {
                            a = vres_u(catch(|| vc.read_exact_volatile(&mut v)));
                            b = sres_u(sc.read_exact(&mut sbuf));
                        } else {
                            a = vres_n(catch(|| vc.read_volatile(&mut v)));
                            b = sres_n(sc.read(&mut sbuf));
                        }
                        pv = vc.position();
                        ps = sc.position();
                    } else {
                        let mut vc = Cursor::new(data.clone());
                        let mut sc = Cursor::new(data.clone());
                        vc.set_position(vcur);
                        sc.set_position(scur);
                        if exact {
                            a = vres_u(catch(|| vc.read_exact_volatile(&mut v)));
                            b = sres_u(sc.read_exact(&mut sbuf));
                        } else {
                            a = vres_n(catch(|| vc.read_volatile(&mut v)));
                            b = sres_n(sc.read(&mut sbuf));
                        }
                        pv = vc.position();
                        ps = sc.position();
                    }
                    desc = format!("Cursor@{}.{}(buf[{}])", vcur, if exact { "read_exact_volatile" } else { "read_volatile" }, blen);
                    vr = a;
                    sr = b;
                    vcur = pv;
                    scur = ps;
                }
                _ => {
                    let reading = cx().a(3) == 0;
                    let mut vc = Cursor::new(&mut vback[..]);
                    let mut sc = Cursor::new(&mut sback[..]);
                    vc.set_position(vcur);
                    sc.set_position(scur);
                    if reading {
                        let mut v = vb.vs();
                        desc = format!("Cursor<&mut[u8]>@{}.read_volatile(buf[{}])", vcur, blen);
                        vr = vres_n(catch(|| vc.read_volatile(&mut v)));
                        sr = sres_n(sc.read(&mut sbuf));
                    } else if exact {
                        let v = vb.vs();
                        desc = format!("Cursor<&mut[u8]>@{}.write_all_volatile(buf[{}])", vcur, blen);
                        vr = vres_u(catch(|| vc.write_all_volatile(&v)));
                        sr = sres_u(sc.write_all(&sbuf));
                    } else {
                        let v = vb.vs();
                        desc = format!("Cursor<&mut[u8]>@{}.write_volatile(buf[{}])", vcur, blen);
                        vr = vres_n(catch(|| vc.write_volatile(&v)));
                        sr = sres_n(sc.write(&sbuf));
                    }
                    vcur = vc.position();
                    scur = sc.position();
                }
            }
            cx().op_end(call as u64, 0);
            cx().mode = Mode::Setup;
            let vcont = vb.contents();
            let frame = vb.finish();
            log.push(format!("{} -> {:?} (std: {:?})", desc, vr, sr));
            if let Some(f) = frame {
                cx().violate("C13", "C13/frame", format!("memory beyond the buffer touched by {}", name), format!("call {} {}: {}", call, desc, f));
            }
            if let R::Panic(m) = &vr {
                viol("panic", format!("call {} {}: {}", call, desc, m));
                break;
            }
            if vr != sr {
                viol("result", format!("call {} {} on {} of {} bytes: returned {:?}, std returned {:?}", call, desc, name, slen, vr, sr));
                break;
            }
            // Only a failed exact *read* leaves the stream state unspecified in std (and the unmodified
            // adapters differ from std 1.95 there); a failed write_all is compared like any other call.
            let reading_call = matches!(kind, 0 | 3 | 4) || desc.contains("read_");
            let failed_exact = exact && reading_call && matches!(vr, R::E(_));
            if failed_exact {
                short_or_err += 1;
                // std leaves buffer contents and the amount consumed unspecified after a failed
                // exact call: re-synchronise the twin to the adapter's state instead of comparing
                spos = vpos;
                scur = vcur;
                sback = vback.clone();
                svec = vvec.clone();
                continue;
            }
            match vr {
                R::N(n) if n < blen => short_or_err += 1,
                _ => ok_calls += 1,
            }
            if vcont != sbuf {
                viol("bytes landed", format!("call {} {}: volatile buffer holds {:02x?}, the std buffer {:02x?}", call, desc, vcont, sbuf));
            }
            if vpos != spos || vcur != scur {
                viol("stream position", format!("call {} {}: adapter advanced to {}/{} , std to {}/{}", call, desc, vpos, vcur, spos, scur));
            }
            if vback != sback || vvec != svec {
                viol("sink contents", format!("call {} {}: sink contents differ from the std twin (vec {} vs {} bytes)", call, desc, vvec.len(), svec.len()));
            }
        }
        let desc = if cx().trace { Some(J::obj().set("adapter", J::s(name)).set("stream_len", J::i(slen)).set("calls", J::strs(log.clone()))) } else { None };
        cx().mode = Mode::Oracle;
        RunInfo { nontrivial: ok_calls > 0 && short_or_err > 0, desc, cell: None }
    }
}

// ---------------------------------------------------------------------------------------------
// descriptor adapters

#[derive(Clone, Copy, Debug, PartialEq, Eq)]
enum FdKind {
    File,
    UnixStream,
    /// a TcpStream object around one end of a socket pair (the adapter only uses the descriptor)
    Tcp,
    OwnedPipe,
    Borrowed,
    Stdout,
}

fn mk_pipe() -> (OwnedFd, OwnedFd) {
    let mut fds = [0i32; 2];
    // SAFETY: plain syscalls.
    unsafe {
        assert_eq!(libc::pipe2(fds.as_mut_ptr(), libc::O_NONBLOCK | libc::O_CLOEXEC), 0);
        (OwnedFd::from_raw_fd(fds[0]), OwnedFd::from_raw_fd(fds[1]))
    }
}

fn mk_socketpair() -> (OwnedFd, OwnedFd) {
    let mut fds = [0i32; 2];
    // SAFETY: plain syscalls.
    unsafe {
        assert_eq!(libc::socketpair(libc::AF_UNIX, libc::SOCK_STREAM | libc::SOCK_NONBLOCK | libc::SOCK_CLOEXEC, 0, fds.as_mut_ptr()), 0);
        (OwnedFd::from_raw_fd(fds[0]), OwnedFd::from_raw_fd(fds[1]))
    }
}

fn raw_write_fd(fd: i32, data: &[u8]) {
    // SAFETY: writing our own buffer to our own descriptor.
    let n = unsafe { libc::write(fd, data.as_ptr() as *const libc::c_void, data.len()) };
    assert_eq!(n, data.len() as isize);
}

fn raw_read_fd(fd: i32, max: usize) -> Vec<u8> {
    let mut v = vec![0u8; max];
    // SAFETY: reading into our own buffer.
    let n = unsafe { libc::read(fd, v.as_mut_ptr() as *mut libc::c_void, max) };
    v.truncate(n.max(0) as usize);
    v
}

fn gen_verdicts(n: usize) -> Vec<IoVerdict> {
    let c = cx();
    let mask = 1 + c.a(31);
    (0..n)
        .map(|_| match c.a(10) {
            0 | 1 if mask & 1 != 0 => IoVerdict::Shorten(1 + c.a(12) as usize),
            2 | 3 if mask & 2 != 0 => IoVerdict::Errno(libc::EINTR),
            4 if mask & 4 != 0 => IoVerdict::Zero,
            5 if mask & 8 != 0 => IoVerdict::Errno([libc::EIO, libc::EBADF, libc::EFAULT, libc::ENOSPC][c.a(4) as usize]),
            6 if mask & 16 != 0 => IoVerdict::Errno(libc::EAGAIN),
            _ => IoVerdict::Pass,
        })
        .collect()
}

/// POSIX byte-stream model of one endpoint as seen from our descriptor.
struct FdModel {
    kind: FdKind,
    /// File: whole contents + shared offset
    file: Vec<u8>,
    off: usize,
    /// stream kinds: bytes waiting to be read by us, bytes we have written
    inq: Vec<u8>,
    out: Vec<u8>,
}

impl FdModel {
    /// outcome of one read(2) of `len` bytes under `v`: (ret, errno, data)
    fn read(&mut self, len: usize, v: IoVerdict) -> (isize, i32, Vec<u8>) {
        let want = match v {
            IoVerdict::Pass => len,
            IoVerdict::Shorten(k) => len.min(k),
            IoVerdict::Zero => return (0, 0, vec![]),
            IoVerdict::Errno(e) => return (-1, e, vec![]),
        };
        match self.kind {
            FdKind::File | FdKind::Borrowed => {
                let n = want.min(self.file.len().saturating_sub(self.off));
                let d = self.file[self.off.min(self.file.len())..self.off.min(self.file.len()) + n].to_vec();
                self.off += n;
                (n as isize, 0, d)
            }
            _ => {
                if want > 0 && self.inq.is_empty() {
                    return (-1, libc::EAGAIN, vec![]);
                }
                let n = want.min(self.inq.len());
                let d: Vec<u8> = self.inq.drain(..n).collect();
                (n as isize, 0, d)
            }
        }
    }
    fn write(&mut self, data: &[u8], v: IoVerdict) -> (isize, i32) {
        let want = match v {
            IoVerdict::Pass => data.len(),
            IoVerdict::Shorten(k) => data.len().min(k),
            IoVerdict::Zero => return (0, 0),
            IoVerdict::Errno(e) => return (-1, e),
        };
        match self.kind {
            FdKind::File | FdKind::Borrowed => {
                if self.file.len() < self.off + want {
                    self.file.resize(self.off + want, 0);
                }
                self.file[self.off..self.off + want].copy_from_slice(&data[..want]);
                self.off += want;
            }
            _ => self.out.extend_from_slice(&data[..want]),
        }
        (want as isize, 0)
    }
}

impl Scenario for IoFd {
    fn name(&self) -> &'static str {
        "S-io/descriptor"
    }

    fn run(&self) -> RunInfo {
        cx().mode = Mode::Setup;
        let kind = [FdKind::File, FdKind::UnixStream, FdKind::OwnedPipe, FdKind::Borrowed, FdKind::Stdout, FdKind::Tcp][cx().a(6) as usize];
        let flen = cx().a(80) as usize;
        let fdata: Vec<u8> = (0..flen).map(data_byte).collect();
        // real kernel objects, all anonymous
        let file = crate::gmworld::memfd(0);
        let (pr, pw) = mk_pipe();
        let (sa, sb) = mk_socketpair();
        let mut model = FdModel { kind, file: vec![], off: 0, inq: vec![], out: vec![] };
        match kind {
            FdKind::File | FdKind::Borrowed => {
                raw_write_fd(file.as_raw_fd(), &fdata);
                // SAFETY: our own descriptor.
                unsafe { libc::lseek(file.as_raw_fd(), 0, libc::SEEK_SET) };
                model.file = fdata.clone();
            }
            FdKind::OwnedPipe => {
                raw_write_fd(pw.as_raw_fd(), &fdata);
                model.inq = fdata.clone();
            }
            FdKind::UnixStream | FdKind::Tcp => {
                raw_write_fd(sb.as_raw_fd(), &fdata);
                model.inq = fdata.clone();
            }
            FdKind::Stdout => cx().sys.stdout_capture = Some(Vec::new()),
        }
        let mut tstream = std::net::TcpStream::from(sa.try_clone().expect("dup"));
        let mut ustream = std::os::unix::net::UnixStream::from(sa);
        let mut file = file;
        let mut pr = pr; // we read from the pipe's read end
        let mut pw_keep = pw;
        let ncalls = 1 + cx().a(12) as usize;
        let mut log: Vec<String> = Vec::new();
        let mut faults = 0;
        let mut plain = 0;
        for call in 0..ncalls {
            if !cx().violations.is_empty() {
                break;
            }
            let blen = gen_buf_len();
            let exact = cx().a(3) == 0;
            let writing = match kind {
                FdKind::Stdout => true,
                FdKind::OwnedPipe => false,
                _ => cx().a(2) == 0,
            };
            let verdicts = gen_verdicts(if exact { blen + 6 } else { 1 });
            cx().sys.io_script = verdicts.iter().copied().collect();
            cx().sys.io_log.clear();
            // no correct loop needs more calls than bytes plus scripted outcomes
            cx().sys.io_call_cap = Some(blen + verdicts.len() + 16);
            let stamp = call * 5 + 3;
            cx().mode = Mode::Actor;
            cx().op_begin(call as u64);
            let vb = VBuf::new(blen, |i| data_byte(i + stamp) ^ 0xA5);
            let init = vb.contents();
            let res: R = {
                let v = vb.vs();
                let mut vm = vb.vs();
                macro_rules! drive {
                    ($obj:expr) => {
                        match (writing, exact) {
                            (true, true) => vres_u(catch(|| $obj.write_all_volatile(&v))),
                            (true, false) => vres_n(catch(|| $obj.write_volatile(&v))),
                            (false, true) => vres_u(catch(|| $obj.read_exact_volatile(&mut vm))),
                            (false, false) => vres_n(catch(|| $obj.read_volatile(&mut vm))),
                        }
                    };
                }
                match kind {
                    FdKind::File => drive!(file),
                    FdKind::UnixStream => drive!(ustream),
                    FdKind::Tcp => drive!(tstream),
                    FdKind::OwnedPipe => drive!(pr),
                    FdKind::Borrowed => {
                        let mut b = file.as_fd();
                        drive!(b)
                    }
                    FdKind::Stdout => {
                        let mut so = std::io::stdout();
                        if exact {
                            vres_u(catch(|| so.write_all_volatile(&v)))
                        } else {
                            vres_n(catch(|| so.write_volatile(&v)))
                        }
                    }
                }
            };
            cx().op_end(call as u64, 0);
            cx().mode = Mode::Setup;
            cx().sys.io_script.clear();
            cx().sys.io_call_cap = None;
            let calls = std::mem::take(&mut cx().sys.io_log);
            let after = vb.contents();
            let bufaddr = vb.ptr as usize;
            let frame = vb.finish();
            let desc = format!("{:?}.{}{}(buf[{}]) verdicts={:?} -> {:?} after {} syscall(s)", kind, if writing { "write" } else { "read" }, if exact { "_all/_exact" } else { "" }, blen, &verdicts[..verdicts.len().min(6)], res, calls.len());
            log.push(desc.clone());
            let fp = |w: &str| format!("{} {:?} {}", w, kind, if writing { "write" } else { "read" });
            if let Some(f) = frame {
                cx().violate("C13", "C13/frame", fp("memory beyond the buffer"), format!("call {} {}: {}", call, desc, f));
            }
            if let R::Panic(m) = &res {
                if m == "Budget" {
                    cx().violate("C13", "C13/liveness", fp("no result"), format!("call {} {}: still issuing system calls after {} of them; std's loop ends on the first outcome that is neither progress nor EINTR", call, desc, calls.len()));
                } else {
                    cx().violate("C13", "C13/panic", fp("panic"), format!("call {} {}: {}", call, desc, m));
                }
                break;
            }
            // ---- reference: what std's impls do with the same outcome script ----------------------
            // one syscall per read/write with the buffer's pointer and length; exact loops retry on
            // EINTR, fail with UnexpectedEof / WriteZero on 0, stop on any other error.
            let mut exp_calls: Vec<(usize, usize, isize, i32)> = Vec::new(); // (buf offset, len, ret, errno)
            let mut exp_buf = init.clone();
            let mut done = 0usize;
            let mut vi = 0usize;
            let exp_res: R = loop {
                if exact && blen == 0 {
                    break R::Unit;
                }
                let v = verdicts.get(vi).copied().unwrap_or(IoVerdict::Pass);
                vi += 1;
                let len = blen - done;
                let (ret, e) = if writing {
                    let data = exp_buf[done..].to_vec();
                    let (r, e) = if kind == FdKind::Stdout {
                        // emulated sink accepts everything it is allowed to
                        match v {
                            IoVerdict::Pass => (len as isize, 0),
                            IoVerdict::Shorten(k) => (len.min(k) as isize, 0),
                            IoVerdict::Zero => (0, 0),
                            IoVerdict::Errno(e) => (-1, e),
                        }
                    } else {
                        model.write(&data, v)
                    };
                    if kind == FdKind::Stdout && r > 0 {
                        model.out.extend_from_slice(&data[..r as usize]);
                    }
                    (r, e)
                } else {
                    let (r, e, d) = model.read(len, v);
                    if r > 0 {
                        exp_buf[done..done + r as usize].copy_from_slice(&d);
                    }
                    (r, e)
                };
                exp_calls.push((done, len, ret, e));
                if !exact {
                    break if ret < 0 { R::Os(e) } else { R::N(ret as usize) };
                }
                if ret < 0 {
                    if e == libc::EINTR {
                        continue;
                    }
                    break R::Os(e);
                }
                if ret == 0 {
                    break R::E(if writing { ErrorKind::WriteZero } else { ErrorKind::UnexpectedEof });
                }
                done += ret as usize;
                if done == blen {
                    break R::Unit;
                }
            };
            faults += verdicts[..vi.min(verdicts.len())].iter().filter(|v| **v != IoVerdict::Pass).count();
            plain += 1;
            if res != exp_res {
                cx().violate("C13", "C13/posix", fp("result"), format!("call {} {}: returned {:?}; std's {} on the same descriptor outcomes returns {:?}", call, desc, res, if exact { "read_exact/write_all" } else { "read/write" }, exp_res));
                break;
            }
            let got_calls: Vec<(usize, usize, isize, i32)> = calls.iter().map(|c| (c.buf.wrapping_sub(bufaddr), c.len, c.ret, c.errno)).collect();
            if got_calls != exp_calls {
                cx().violate("C13", "C13/posix", fp("syscall sequence"), format!("call {} {}: system calls (buffer offset, length, result, errno) were {:?}; expected {:?}", call, desc, got_calls, exp_calls));
                break;
            }
            if calls.iter().any(|c| c.write != writing) {
                cx().violate("C13", "C13/posix", fp("wrong syscall"), format!("call {} {}: wrong system call direction", call, desc));
            }
            if after != exp_buf {
                cx().violate("C13", "C13/posix", fp("bytes landed"), format!("call {} {}: buffer holds {:02x?}, expected {:02x?}", call, desc, after, exp_buf));
                break;
            }
        }
        // ---- what reached the other side -----------------------------------------------------------
        if cx().violations.is_empty() {
            match kind {
                FdKind::File | FdKind::Borrowed => {
                    let mut all = vec![0u8; model.file.len() + 8];
                    // SAFETY: pread into our own buffer.
                    let n = unsafe { libc::pread(file.as_raw_fd(), all.as_mut_ptr() as *mut libc::c_void, all.len(), 0) };
                    all.truncate(n.max(0) as usize);
                    // SAFETY: our own descriptor.
                    let pos = unsafe { libc::lseek(file.as_raw_fd(), 0, libc::SEEK_CUR) };
                    if all != model.file || pos != model.off as i64 {
                        cx().violate("C13", "C13/posix", format!("file state {:?}", kind), format!("{:?}: file holds {} byte(s) at offset {}, the byte-stream model says {} byte(s) at offset {} (contents equal: {})", log, all.len(), pos, model.file.len(), model.off, all == model.file));
                    }
                }
                FdKind::UnixStream | FdKind::Tcp => {
                    let got = raw_read_fd(sb.as_raw_fd(), model.out.len() + 64);
                    if got != model.out {
                        cx().violate("C13", "C13/posix", "peer received".into(), format!("{:?}: the peer received {} byte(s), the model says {}", log, got.len(), model.out.len()));
                    }
                }
                FdKind::Stdout => {
                    let cap = cx().sys.stdout_capture.take().unwrap_or_default();
                    if cap != model.out {
                        cx().violate("C13", "C13/posix", "stdout sink".into(), format!("{:?}: the stdout sink received {} byte(s), the model says {}", log, cap.len(), model.out.len()));
                    }
                }
                FdKind::OwnedPipe => {}
            }
        }
        cx().sys.stdout_capture = None;
        let _ = (&mut pw_keep, &mut ustream, &mut tstream);
        let desc = if cx().trace { Some(J::obj().set("descriptor", J::s(format!("{:?}", kind))).set("stream_len", J::i(flen)).set("calls", J::strs(log.clone()))) } else { None };
        cx().mode = Mode::Oracle;
        RunInfo { nontrivial: faults > 0 && plain > 0, desc, cell: None }
    }
}
