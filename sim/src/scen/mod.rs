//! Scenarios and the table that maps properties to them.

use crate::json::J;

pub mod bitmap;
pub mod mem;
pub mod tear;
pub mod stream;
pub mod io;
pub mod gm;
pub mod hotplug;
pub mod build;
pub mod zero;
#[cfg(feature = "xen")]
pub mod xen;

pub struct RunInfo {
    /// non-trivial by the scenario's stated rule
    pub nontrivial: bool,
    /// human-readable description of the run (only when tracing)
    pub desc: Option<J>,
    /// coverage cell this run belongs to and a signature that identifies the run within it
    pub cell: Option<(String, u64)>,
}

pub trait Scenario: Sync {
    fn name(&self) -> &'static str;
    /// Execute one run against the installed context (`crate::sim::cx()`).
    fn run(&self) -> RunInfo;
}

pub struct Part {
    pub name: &'static str,
    /// runs with the xen build of the simulator
    pub xen: bool,
    pub quick: u64,
    pub thorough: u64,
}

pub struct Check {
    pub prop: &'static str,
    pub parts: Vec<Part>,
    pub rule: &'static str,
    pub assumptions: Vec<&'static str>,
    pub real: Vec<&'static str>,
    pub stub: Vec<&'static str>,
    /// seam-event kinds without which the check would be vacuous
    pub needs_seam_events: bool,
}

pub fn all_scenarios() -> Vec<&'static dyn Scenario> {
    let mut v: Vec<&'static dyn Scenario> = Vec::new();
    v.push(&bitmap::CONC);
    v.push(&bitmap::CANON);
    v.push(&bitmap::MODEL);
    v.push(&mem::MEM);
    v.push(&tear::TEAR);
    v.push(&stream::STREAM);
    v.push(&io::IOMEM);
    v.push(&io::IOFD);
    v.push(&gm::GM);
    v.push(&gm::DIRTY_GM);
    v.push(&mem::DIRTY_SLICE);
    v.push(&mem::DIRTY_RACE);
    v.push(&hotplug::SEQ);
    v.push(&hotplug::CONC);
    v.push(&build::BUILD);
    v.push(&zero::ZERO);
    #[cfg(feature = "xen")]
    v.push(&xen::XEN);
    #[cfg(feature = "xen")]
    v.push(&xen::XEN_CONC);
    v
}

pub fn find_scenario(name: &str) -> Option<&'static dyn Scenario> {
    all_scenarios().into_iter().find(|s| s.name() == name)
}

const COMMON_ASSUMPTIONS: [&str; 4] = [
    "only sequentially consistent interleavings at the instrumented seams are explored; memory-ordering arguments are not",
    "the cfg(vm_memory_verif) shims are faithful pass-throughs of the operations they wrap",
    "compiler output for volatile/atomic accesses, arc-swap internals and the kernel are trusted",
    "a clean batch of sampled schedules/fault scripts is evidence, not proof",
];

pub fn checks() -> Vec<Check> {
    let mut v = Vec::new();
    v.push(Check {
        prop: "C08",
        parts: vec![
            Part { name: bitmap::CONC.name(), xen: false, quick: 3_000_000, thorough: 150_000_000 },
            Part { name: bitmap::CANON.name(), xen: false, quick: 300_000, thorough: 3_000_000 },
        ],
        rule: "runs are seeded executions of 2-3 coroutine actors doing 1-4 bitmap operations each, switched at every atomic word operation (marks through every slice view incl. Bitmap::slice_at, resets of ranges that cross word boundaries; what an operation is owed to set / allowed to clear comes from the page-set model); distinct = distinct event-log hash (operations + interleaving of atomic steps); non-trivial = at least one context switch happened inside an operation and at least one mark and one harvest/reset/clone ran",
        assumptions: COMMON_ASSUMPTIONS.to_vec(),
        real: vec!["vm_memory::bitmap::AtomicBitmap, RefSlice, ArcSlice, Option<B> (compiled from /repo working tree)", "std atomics (executed atomically between yield points)"],
        stub: vec!["thread scheduling (coroutines under the seeded scheduler)"],
        needs_seam_events: true,
    });
    v.push(Check {
        prop: "C09",
        parts: vec![Part { name: bitmap::MODEL.name(), xen: false, quick: 300_000, thorough: 20_000_000 }],
        rule: "runs are seeded histories of up to 40 public bitmap operations by 1-3 actors switched between operations, checked step by step against a BTreeSet model (views through RefSlice / ArcSlice / Bitmap::slice_at incl. bases beyond the end, enlarge, clone, clone_from into a second bitmap of unrelated geometry); distinct = distinct event-log hash; non-trivial = at least one state-changing operation had an effect and at least one out-of-range or ignored request occurred",
        assumptions: COMMON_ASSUMPTIONS.to_vec(),
        real: vec!["vm_memory::bitmap::AtomicBitmap, BaseSlice/RefSlice/ArcSlice, Option<B>, () (compiled from /repo working tree)"],
        stub: vec!["actor interleaving at operation granularity (seeded)"],
        needs_seam_events: true,
    });
    v.push(Check {
        prop: "C04",
        parts: vec![Part { name: mem::MEM.name(), xen: false, quick: 1_500_000, thorough: 60_000_000 }, Part { name: "S-mem", xen: true, quick: 300_000, thorough: 15_000_000 }],
        rule: "runs are seeded histories of up to 30 accessor operations (buffers, objects, typed refs, element arrays, element-wise and slice-to-slice copies, atomics, references, in-memory streams) by 1-3 actors switched between operations on 1-2 containers (VolatileSlice over simulated RAM with guard pages and canaries, or an anonymous MmapRegion), reached through derivation chains, plus derivation requests with offsets / counts around the end of the accessor and the address-space / usize limits, element indexes past the end, aligned references of types whose size differs from their alignment, stream reads from &[u8] / Cursor / a real file; distinct = distinct event-log hash; non-trivial = at least one operation succeeded and at least one was rejected or cut off",
        assumptions: COMMON_ASSUMPTIONS.to_vec(),
        real: vec!["vm_memory::volatile_memory (VolatileSlice, VolatileRef, VolatileArrayRef, copy_slice_impl), Bytes, MmapRegion (compiled from /repo working tree)", "kernel mmap for the region container"],
        stub: vec!["guest RAM: the simulator's own arena with PROT_NONE guard pages and canary bytes", "actor interleaving at operation granularity (seeded)"],
        needs_seam_events: true,
    });
    v.push(Check {
        prop: "C06",
        parts: vec![Part { name: tear::TEAR.name(), xen: false, quick: 3_000_000, thorough: 150_000_000 }],
        rule: "runs are seeded races of one writer (alternating two values, <= 3 writes) and one reader (<= 3 reads) on the same 1-8 guest bytes through one of 12 entry points each, at slice / region / guest-memory level, switched before every primitive guest access (and between the bytes of a bulk copy), plus sequential add-ons in the same run: atomic ordering probe, atomic accesses around the seam of two touching regions, local buffers touching the guest target; distinct = distinct event-log hash; non-trivial = a context switch happened inside an operation and at least one side is in the class for which atomicity is demanded (length 1/2/4/8, guest and local address aligned to it)",
        assumptions: COMMON_ASSUMPTIONS.to_vec(),
        real: vec!["vm_memory copy_slice_impl, VolatileSlice/VolatileRef/VolatileArrayRef, Bytes at slice/region/guest-memory level, in-memory stream adapters, atomic load/store (compiled from /repo working tree)"],
        stub: vec!["thread scheduling (coroutines)", "the second party: a simulated vCPU doing one raw aligned access", "memcpy of the > 8-byte branch replaced by a byte-wise copy with a scheduling point between bytes (models a tearing memcpy)"],
        needs_seam_events: true,
    });
    v.push(Check {
        prop: "C14",
        parts: vec![Part { name: stream::STREAM.name(), xen: false, quick: 2_000_000, thorough: 100_000_000 }],
        rule: "runs are 1-3 stream transfers (read_volatile_from, read_exact_volatile_from, write_volatile_to, write_all_volatile_to, the default exact loops) on a slice, a region or guest memory of 2-3 regions (touching or with holes), driven against a scripted reader/writer whose per-call behaviour (full, short by k, zero, interrupted xN, hard error of several kinds) comes from the tape with a scripted endpoint, a real descriptor under injected read(2)/write(2) results or one of the crate's own in-memory adapters (running dry / filling up), interruption bursts of up to 70 calls; distinct = distinct event-log hash; non-trivial = the script of at least one transfer contained a fault",
        assumptions: COMMON_ASSUMPTIONS.to_vec(),
        real: vec!["vm_memory::io default loops and retry_eintr!, VolatileSlice / GuestRegionMmap / GuestMemory stream methods, try_access (compiled from /repo working tree)", "kernel mmap for regions"],
        stub: vec!["the stream endpoint: a scripted ReadVolatile/WriteVolatile implementation whose outcomes the tape decides"],
        needs_seam_events: true,
    });
    v.push(Check {
        prop: "C13",
        parts: vec![
            Part { name: io::IOMEM.name(), xen: false, quick: 2_000_000, thorough: 100_000_000 },
            Part { name: io::IOFD.name(), xen: false, quick: 1_000_000, thorough: 40_000_000 },
        ],
        rule: "in-memory part: seeded histories of up to 12 consecutive calls (read/read_exact/write/write_all, cursor repositioning incl. past the end) on one adapter (&[u8], &mut [u8], Vec<u8>, Cursor<&[u8]>, Cursor<Vec<u8>>, Cursor<&mut [u8]>) compared call by call with a std::io twin; descriptor part: up to 12 calls on a File, UnixStream, OwnedFd pipe, BorrowedFd or Stdout whose every read(2)/write(2) outcome (pass, shortened, 0, EINTR, EAGAIN, EIO/EBADF/EFAULT/ENOSPC) the tape decides, compared with a POSIX byte-stream model; distinct = distinct event-log hash; non-trivial = at least one full and at least one short/failed/fault-injected call",
        assumptions: COMMON_ASSUMPTIONS.to_vec(),
        real: vec!["vm_memory::io adapters and default exact loops (compiled from /repo working tree)", "std::io twins", "kernel read/write on memfd files, pipes and socketpairs when the injector passes through"],
        stub: vec!["injected read(2)/write(2) results at the H4 seam", "Stdout: an emulated sink (nothing is written to the real fd 1)", "TcpStream: not run (no loopback networking is assumed in the sandbox); it shares the raw-fd code path with UnixStream"],
        needs_seam_events: true,
    });
    v.push(Check {
        prop: "C03",
        parts: vec![Part { name: gm::GM.name(), xen: false, quick: 1_000_000, thorough: 50_000_000 }, Part { name: "S-gm", xen: true, quick: 300_000, thorough: 15_000_000 }],
        rule: "runs are seeded histories of up to 14 operations (buffer / slice / object / atomic / stream accesses at guest-memory level, accesses through get_slice + derivation and through find_region) by 1-3 actors switched between operations on a layout of 1-4 regions (anonymous or memfd-backed, in the standard build and as Xen-UNIX mappings in the xen build; touching, 1-byte holes, huge holes, at 0, ending at the top of the address space); after every step all regions are re-read through host pointers and backing files and compared with a flat sparse byte-array model, descriptor and scripted-stream transfers with faults on later chunks, region-level slice / object / atomic / stream forms through find_region, guest-to-guest copies through typed arrays and slices, remove_region / insert_region steps; distinct = distinct event-log hash; non-trivial = at least one operation succeeded and one was rejected or cut off",
        assumptions: COMMON_ASSUMPTIONS.to_vec(),
        real: vec!["vm_memory GuestMemory::try_access and Bytes<GuestAddress>, GuestRegionMmap, GuestMemoryMmap, MmapRegion (compiled from /repo working tree)", "kernel mmap / memfd / pread"],
        stub: vec!["actor interleaving at operation granularity (seeded)"],
        needs_seam_events: true,
    });
    for (prop, what) in [("C05", "every byte whose value changed is reported dirty by the owning region's bitmap at that region's own offset (diff-driven); a failed descriptor read leaves its whole target dirty"), ("C16", "the bitmap after an operation is exactly the bitmap before it plus the pages overlapping the bytes written (reads, loads, queries, derivations, stream writes out of memory and rejected requests mark nothing; only a failed descriptor read may mark its whole target)")] {
        v.push(Check {
            prop,
            parts: if prop == "C05" {
                vec![Part { name: gm::DIRTY_GM.name(), xen: false, quick: 500_000, thorough: 20_000_000 }, Part { name: mem::DIRTY_SLICE.name(), xen: false, quick: 500_000, thorough: 20_000_000 }, Part { name: mem::DIRTY_RACE.name(), xen: false, quick: 500_000, thorough: 20_000_000 }, Part { name: "S-xen", xen: true, quick: 200_000, thorough: 8_000_000 }]
            } else {
                vec![Part { name: gm::DIRTY_GM.name(), xen: false, quick: 500_000, thorough: 20_000_000 }, Part { name: mem::DIRTY_SLICE.name(), xen: false, quick: 500_000, thorough: 20_000_000 }, Part { name: mem::DIRTY_RACE.name(), xen: false, quick: 500_000, thorough: 20_000_000 }, Part { name: "S-xen", xen: true, quick: 200_000, thorough: 8_000_000 }]
            },
            rule: if prop == "C05" {
                "runs are seeded histories of up to 10 write-type and read-type operations at guest-memory, region and derived-slice level (written data is the complement of the current contents), descriptor reads with injected syscall results, scripted readers that fail part-way, interleaved with bitmap resets/harvests, on 1-3 regions with real AtomicBitmaps (plain or Option) of page sizes 1, 2, 3, 16, 64, 4096 or larger than the region; oracle: every byte whose value changed is dirty in the owning region's bitmap, and a failed descriptor read leaves its whole target dirty; third part S-dirty/race: a writer coroutine (every tracked write entry point, descriptor reads that block in read(2)) against a harvester coroutine (get_and_reset + copy of the reported pages) switched at every guest access, bitmap word operation and blocked read, oracle = the copy assembled from the harvests equals guest memory after a last harvest; fourth part S-xen (xen build): the access histories of C17 on regions that carry the bitmap from_range builds - a changed guest byte must be dirty, and an access that failed before it wrote anything (its temporary mapping could not be made) marks nothing; distinct = distinct event-log hash; non-trivial = at least one operation succeeded and one was rejected or cut off"
            } else {
                "same runs as C05 with the precision oracle: the full bitmap after each operation equals the bitmap before it plus exactly the pages overlapping the written bytes (reads, loads, queries, derivations, stream writes out of memory and rejected requests mark nothing; only a failed descriptor read may mark its whole target; partially completed failing writes are left to C05); distinct = distinct event-log hash; non-trivial = at least one operation succeeded and one was rejected or cut off"
            },
            assumptions: COMMON_ASSUMPTIONS.to_vec(),
            real: vec!["vm_memory dirty tracking in volatile_memory / io / mmap, AtomicBitmap, RefSlice, Option<B> (compiled from /repo working tree)", "kernel mmap / memfd / read(2) when the injector passes through"],
            stub: vec!["injected read(2) results at the H4 seam", "scripted readers", "actor interleaving at operation granularity (seeded)", "S-dirty/race: thread scheduling and blocking in read(2) (coroutines under the seeded scheduler; the harvester's page copy stands for the VMM's migration thread)", "S-xen part: emulated gntdev/privcmd device over a sparse memfd, simulated MMU, injected map-ioctl / mmap failures"],
            needs_seam_events: true,
        });
        let _ = what;
    }
    for prop in ["C10", "C12"] {
        v.push(Check {
            prop,
            parts: if prop == "C12" {
                vec![Part { name: hotplug::SEQ.name(), xen: false, quick: 600_000, thorough: 30_000_000 }, Part { name: "S-hotplug/sequential", xen: true, quick: 200_000, thorough: 10_000_000 }, Part { name: "S-xen", xen: true, quick: 300_000, thorough: 10_000_000 }, Part { name: "S-build", xen: true, quick: 300_000, thorough: 10_000_000 }, Part { name: "S-build", xen: false, quick: 400_000, thorough: 15_000_000 }]
            } else {
                vec![Part { name: hotplug::SEQ.name(), xen: false, quick: 600_000, thorough: 30_000_000 }, Part { name: "S-hotplug/sequential", xen: true, quick: 200_000, thorough: 10_000_000 }]
            },
            rule: "runs are seeded histories of up to 25 handle operations (create anonymous / file-backed / externally mapped regions incl. overlapping, adjacent, duplicate-start and top-of-address-space bases and injected mmap failures; from_regions / from_arc_regions; insert_region; remove_region with right and wrong size or address; clone; publish into a GuestMemoryAtomic; snapshot; into_inner; replace; drop of any live handle in any order), every earlier handle kept alive and re-checked after each step against a model of the region lists and of the process address space (mmap/munmap seam); distinct = distinct event-log hash; non-trivial = at least one request accepted, one refused and one handle dropped mid-history",
            assumptions: COMMON_ASSUMPTIONS.to_vec(),
            real: vec!["vm_memory GuestMemoryMmap / GuestRegionMmap / MmapRegion (build, build_raw, Drop) / GuestMemoryAtomic (compiled from /repo working tree)", "arc-swap, std Arc", "kernel mmap/munmap/memfd when the injector passes through"],
            stub: vec!["injected mmap failures", "order and instant of every drop (decided by the tape)"],
            needs_seam_events: true,
        });
    }
    v.push(Check {
        prop: "C11",
        parts: vec![Part { name: hotplug::CONC.name(), xen: false, quick: 600_000, thorough: 30_000_000 }, Part { name: hotplug::SEQ.name(), xen: false, quick: 300_000, thorough: 10_000_000 }],
        rule: "runs are 1-3 reader coroutines (memory(), clone the guard, into_inner, re-observe what they hold, drop) and 1-2 updater coroutines (lock, snapshot current, derive by insert/remove of a uniquely tagged region, write a generation tag, replace - or give the lock back without replacing) on one GuestMemoryAtomic and its clones, switched before every ArcSwap load/store, at every lock attempt and at every unlock; history oracle stamped with the global event sequence number: wholeness, stability, recency, no lost replacement, no deadlock; plus the sequential histories of S-hotplug/sequential over several handles cloned from the same replaceable memory (publish, clone, snapshot, guard clone, into_inner, replace, drop in any order), where every snapshot-derived handle must keep showing the map it was taken from and a snapshot taken now must show the last replacement; updaters build the new map from a region list or derive it with remove_region / insert_region (last step published); every observed snapshot must agree with itself (find_region, read, num_regions, last_addr); distinct = distinct event-log hash; non-trivial = a context switch inside an operation, at least one replacement and one observation",
        assumptions: COMMON_ASSUMPTIONS.to_vec(),
        real: vec!["vm_memory::atomic (GuestMemoryAtomic, load guard, exclusive guard), GuestMemoryMmap (compiled from /repo working tree)", "arc-swap and std::sync::Mutex (real code, executed atomically between yield points; blocking replaced by a yielding try_lock loop)"],
        stub: vec!["thread scheduling and blocking on the update mutex (coroutines)"],
        needs_seam_events: true,
    });
    v.push(Check {
        prop: "C15",
        parts: vec![Part { name: "S-build", xen: false, quick: 1_000_000, thorough: 40_000_000 }, Part { name: "S-build", xen: true, quick: 600_000, thorough: 30_000_000 }],
        rule: "runs are 1-6 construction requests each: unix build - MmapRegion::build / from_file / new with sizes incl. 0, file lengths at end-1 / end / end+1, offsets around the overflow boundary, unaligned offsets, unseekable files, flag words from a safe palette with and without MAP_FIXED, injected mmap failures, build_raw with aligned and misaligned pointers, GuestRegionMmap::new with guest bases near 2^64; xen build - MmapRegion::from_range over every value of the low five Xen flag bits (plus random high bits), with/without file, zero/non-zero offset, with the emulated device and injected ioctl / mmap failures; unix requests also through MmapRegionBuilder (hugetlbfs hint, raw pointer, raw pointer + file offset), sizes up to 4 MiB, offsets around 2^63; distinct = distinct event-log hash; non-trivial = at least one request accepted and one rejected",
        assumptions: COMMON_ASSUMPTIONS.to_vec(),
        real: vec!["vm_memory::mmap (check_file_offset, MmapRegionBuilder::build/build_raw, GuestRegionMmap::new; xen: MmapRegion::from_range, MmapXen*, MmapXenFlags) compiled from /repo working tree", "kernel mmap / memfd / pipe / lseek / pread / pwrite when the injector passes through (where the kernel decides a flag combination, its real verdict is the reference)"],
        stub: vec!["injected mmap failures", "xen build: emulated gntdev/privcmd device, injected ioctl failures"],
        needs_seam_events: true,
    });
    v.push(Check {
        prop: "C18",
        parts: vec![Part { name: "S-zero", xen: false, quick: 1_000_000, thorough: 40_000_000 }, Part { name: "S-zero", xen: true, quick: 600_000, thorough: 30_000_000 }],
        rule: "runs are up to 10 zero-length requests (empty buffers, zero-sized objects, zero-count stream transfers, copies of zero elements and of the crate-provided zero-sized element types) at slice, region and guest-memory level - and, in the xen build, on grant / foreign regions mapped in advance and on demand - at mapped addresses, one past a region, in a hole, 0 and the maximum address, on empty containers, interleaved at operation granularity with another actor's non-empty writes; stream endpoints that hold data, are drained / full or are cursors at their end; on Xen regions any map request of a zero-length access fails now and then; distinct = distinct event-log hash; non-trivial = at least one request succeeded and (one was refused or more than three were issued)",
        assumptions: COMMON_ASSUMPTIONS.to_vec(),
        real: vec!["vm_memory Bytes implementations of VolatileSlice / GuestRegionMmap / GuestMemory, copy helpers, xen temporary mappings (compiled from /repo working tree, both builds)"],
        stub: vec!["xen build: emulated gntdev/privcmd device and simulated MMU", "actor interleaving at operation granularity (seeded)"],
        needs_seam_events: false,
    });
    v.push(Check {
        prop: "C17",
        parts: vec![Part { name: "S-xen", xen: true, quick: 600_000, thorough: 30_000_000 }, Part { name: "S-mem", xen: false, quick: 600_000, thorough: 20_000_000 }, Part { name: "S-xen/concurrent", xen: true, quick: 200_000, thorough: 10_000_000 }],
        rule: "runs are histories of up to 10 access operations (buffer / object / typed-ref / element-array / atomic / slice-to-slice / stream / descriptor accesses and pointer-guard inspections, offsets within a page and across page boundaries, element types of 1-32 bytes) on one Xen region - grant mapped on demand, grant mapped in advance, foreign, or plain unix - over an emulated gntdev/privcmd device, with now and then the next map ioctl or mmap made to fail; plus, in the standard build, the S-mem histories whose pointer-guard inspections (slice, typed reference, element array, last element; read and mutable guards) compare len() and as_ptr() with the accessor; the sequential part also injects failing unmap ioctls, issues accesses under a held pointer guard whose own map request fails, holds a guard across the drop of its region; a concurrent part (S-xen/concurrent) runs two coroutine threads on one on-demand region, each in its own pages, switched at every map / unmap ioctl, mmap and munmap; distinct = distinct event-log hash; non-trivial = a device-backed region and more than one operation or an injected failure",
        assumptions: COMMON_ASSUMPTIONS.to_vec(),
        real: vec!["vm_memory::mmap::xen (MmapXen, MmapXenGrant, MmapXenForeign, MmapXenSlice), PtrGuard, volatile_memory accessors (compiled from /repo working tree with the xen feature)", "kernel mmap/munmap of the device memfd"],
        stub: vec!["Xen gntdev/privcmd ioctls: emulated device over a sparse memfd that is the guest's memory", "simulated MMU: windows are placed inside PROT_NONE reservations; the seams check every touched byte before the access", "injected ioctl / mmap / unmap-ioctl failures", "S-xen/concurrent: thread scheduling (coroutines switched at the mapping seams)"],
        needs_seam_events: true,
    });
    v
}

pub fn find_check(prop: &str) -> Option<Check> {
    checks().into_iter().find(|c| c.prop == prop)
}
