//! The system-call seam (H4/H5): address-space model, scripted read/write outcomes, simulated MMU
//! and (xen build) the emulated grant / foreign-memory device.

use crate::sim::{cx, EvKind, Mode};
use std::collections::VecDeque;

#[derive(Clone, Debug)]
pub struct Mapping {
    pub id: u32,
    pub addr: usize,
    pub len: usize,
    pub prot: i32,
    pub flags: i32,
    pub fd: i32,
    pub off: i64,
    pub live: bool,
    /// sequence number (seam event count) at which it was created / destroyed
    pub born: u64,
    pub died: u64,
    /// reservation (addr, len) this window was placed into (red-zone mode)
    pub resv: Option<(usize, usize)>,
    /// id of the mmap call this piece comes from (pieces appear when a mapping is unmapped in part)
    pub origin: u32,
}

#[derive(Clone, Copy, Debug, PartialEq, Eq)]
pub enum IoVerdict {
    Pass,
    /// cap the length passed to the kernel
    Shorten(usize),
    Zero,
    Errno(i32),
}

#[derive(Clone, Debug)]
pub struct IoCall {
    pub write: bool,
    pub fd: i32,
    pub buf: usize,
    pub len: usize,
    pub ret: isize,
    pub errno: i32,
    pub verdict: IoVerdict,
}

/// descriptor calls one run may make while no scenario-specific cap is set
pub const DEFAULT_IO_CALL_CAP: usize = 20_000;

#[derive(Default)]
pub struct SysModel {
    pub maps: Vec<Mapping>,
    next_id: u32,
    pub seq: u64,
    pub mmap_calls: u32,
    /// fail the k-th (0-based) mmap call of the run with this errno
    pub fail_mmap_at: Option<(u32, i32)>,
    pub mmap_failed_injected: u32,
    pub anomalies: Vec<String>,
    pub map_fixed_seen: bool,
    pub io_script: VecDeque<IoVerdict>,
    pub io_log: Vec<IoCall>,
    /// abort the operation (simulated budget exhaustion) after this many read/write calls
    pub io_call_cap: Option<usize>,
    pub stdout_capture: Option<Vec<u8>>,
    // simulated MMU
    pub mmu_on: bool,
    pub redzone: bool,
    pub null_range: Option<(usize, usize)>,
    pub mmu_faults: Vec<String>,
    reservations: Vec<(usize, usize)>,
    #[cfg(feature = "xen")]
    pub xen: Option<crate::xendev::XenDev>,
}

fn set_errno(e: i32) {
    // SAFETY: errno location is always valid.
    unsafe { *libc::__errno_location() = e };
}

fn errno() -> i32 {
    // SAFETY: errno location is always valid.
    unsafe { *libc::__errno_location() }
}

pub fn page() -> usize {
    4096
}

impl SysModel {
    pub fn live(&self) -> Vec<&Mapping> {
        self.maps.iter().filter(|m| m.live).collect()
    }
    pub fn live_count(&self) -> usize {
        self.maps.iter().filter(|m| m.live).count()
    }
    pub fn find_live(&self, addr: usize) -> Option<&Mapping> {
        self.maps.iter().find(|m| m.live && addr >= m.addr && addr < m.addr + m.len.max(1))
    }
    /// every page of [addr, addr+len) lies inside a live mapping the library made
    pub fn covered(&self, addr: usize, len: usize) -> bool {
        let mut p = addr;
        let end = addr + len;
        while p < end {
            match self.maps.iter().find(|m| m.live && p >= m.addr && p < m.addr + round_up(m.len.max(1))) {
                Some(m) => p = m.addr + round_up(m.len.max(1)),
                None => return false,
            }
        }
        true
    }
    pub fn origin_live(&self, origin: u32) -> bool {
        self.maps.iter().any(|m| m.live && m.origin == origin)
    }
    pub fn is_live_exact(&self, addr: usize, len: usize) -> bool {
        self.maps.iter().any(|m| m.live && m.addr == addr && m.len == len)
    }

    /// One-sided MMU classification: `Some(reason)` only for bytes that are certainly not backed.
    pub fn mmu_violation(&self, addr: usize, len: usize) -> Option<&'static str> {
        if len == 0 {
            return None;
        }
        let end = addr.saturating_add(len);
        if let Some((lo, hi)) = self.null_range {
            if addr < hi && end > lo {
                return Some("address in the null-based range an on-demand region hands out as its host address");
            }
        }
        for &(ra, rl) in &self.reservations {
            if addr < ra + rl && end > ra {
                // inside one of our reservations: every byte must be inside a live window
                let mut p = addr.max(ra);
                let stop = end.min(ra + rl);
                while p < stop {
                    match self.maps.iter().find(|m| m.live && m.resv == Some((ra, rl)) && p >= m.addr && p < m.addr + round_up(m.len)) {
                        Some(m) => p = m.addr + round_up(m.len),
                        None => {
                            let dead = self.maps.iter().any(|m| !m.live && m.resv == Some((ra, rl)) && p >= m.addr && p < m.addr + round_up(m.len));
                            return Some(if dead {
                                "byte in a temporary mapping that has already been released"
                            } else {
                                "byte in the red zone next to a temporary mapping (window too small)"
                            });
                        }
                    }
                }
            }
        }
        None
    }

    /// Release everything the run left behind (called by the worker after each run).
    pub fn cleanup(&mut self) {
        for m in self.maps.iter_mut() {
            if m.live && m.resv.is_none() {
                // SAFETY: a mapping the library created and leaked; nobody uses it after the run.
                unsafe { libc::munmap(m.addr as *mut libc::c_void, m.len) };
                m.live = false;
            }
        }
        for &(a, l) in &self.reservations {
            // SAFETY: our own reservation.
            unsafe { libc::munmap(a as *mut libc::c_void, l) };
        }
        self.reservations.clear();
    }
}

fn round_up(len: usize) -> usize {
    len.div_ceil(page()) * page()
}

pub unsafe fn hook_mmap(
    addr: *mut libc::c_void,
    len: libc::size_t,
    prot: libc::c_int,
    flags: libc::c_int,
    fd: libc::c_int,
    offset: libc::off_t,
) -> *mut libc::c_void {
    let c = cx();
    if c.mode == Mode::Oracle {
        return libc::mmap(addr, len, prot, flags, fd, offset);
    }
    c.seam_events += 1;
    if c.cfg.yield_sys {
        crate::sim::yield_point();
    }
    let c = cx();
    let k = c.sys.mmap_calls;
    c.sys.mmap_calls += 1;
    if flags & (libc::MAP_FIXED | libc::MAP_FIXED_NOREPLACE) != 0 {
        c.sys.map_fixed_seen = true;
        c.sys.anomalies.push("MAP_FIXED / MAP_FIXED_NOREPLACE request reached the mmap seam".into());
        c.ev(EvKind::Sys, 1, len as u64, (-(libc::EINVAL as i64)) as u64);
        set_errno(libc::EINVAL);
        return libc::MAP_FAILED;
    }
    if let Some((at, e)) = c.sys.fail_mmap_at {
        if at == k {
            c.sys.mmap_failed_injected += 1;
            c.count("fault.mmap_fail");
            c.ev(EvKind::Sys, 1, len as u64, (-(e as i64)) as u64);
            set_errno(e);
            return libc::MAP_FAILED;
        }
    }
    let mut resv = None;
    let ret = if c.sys.redzone && fd >= 0 && len > 0 {
        // place the window in the middle of a PROT_NONE reservation of our own
        let wl = round_up(len);
        let total = wl + 2 * page();
        let base = libc::mmap(std::ptr::null_mut(), total, libc::PROT_NONE, libc::MAP_PRIVATE | libc::MAP_ANONYMOUS | libc::MAP_NORESERVE, -1, 0);
        if base == libc::MAP_FAILED {
            libc::MAP_FAILED
        } else {
            let want = (base as usize + page()) as *mut libc::c_void;
            let r = libc::mmap(want, len, prot, flags | libc::MAP_FIXED, fd, offset);
            if r == libc::MAP_FAILED {
                let e = errno();
                libc::munmap(base, total);
                set_errno(e);
                libc::MAP_FAILED
            } else {
                resv = Some((base as usize, total));
                c.sys.reservations.push((base as usize, total));
                r
            }
        }
    } else {
        libc::mmap(addr, len, prot, flags, fd, offset)
    };
    let e = errno();
    let c = cx();
    if ret == libc::MAP_FAILED {
        c.count("sys.mmap_natural_fail");
        c.ev(EvKind::Sys, 1, len as u64, (-(e as i64)) as u64);
        set_errno(e);
        return ret;
    }
    let id = c.sys.next_id;
    c.sys.next_id += 1;
    c.sys.seq += 1;
    let seq = c.sys.seq;
    c.sys.maps.push(Mapping {
        id,
        addr: ret as usize,
        len,
        prot,
        flags,
        fd,
        off: offset as i64,
        live: true,
        born: seq,
        died: 0,
        resv,
        origin: id,
    });
    c.ev(EvKind::Sys, 1, len as u64, id as u64);
    #[cfg(feature = "xen")]
    if let Some(x) = c.sys.xen.as_mut() {
        x.on_mmap(fd, offset as u64, len, id);
    }
    ret
}

pub unsafe fn hook_munmap(addr: *mut libc::c_void, len: libc::size_t) -> libc::c_int {
    let c = cx();
    if c.mode == Mode::Oracle {
        return libc::munmap(addr, len);
    }
    c.seam_events += 1;
    if c.cfg.yield_sys {
        crate::sim::yield_point();
    }
    let c = cx();
    c.sys.seq += 1;
    let seq = c.sys.seq;
    let a = addr as usize;
    // kernel semantics: whole pages; an unaligned address or a zero length is EINVAL and changes nothing
    if a % page() != 0 || len == 0 || a.checked_add(round_up(len)).is_none() {
        c.count("sys.munmap_einval");
        c.ev(EvKind::Sys, 2, u64::MAX - 1, len as u64);
        set_errno(libc::EINVAL);
        return -1;
    }
    let end = a + round_up(len);
    let idxs: Vec<usize> = c.sys.maps.iter().enumerate().filter(|(_, m)| m.live && m.addr < end && m.addr + round_up(m.len.max(1)) > a).map(|(i, _)| i).collect();
    let mut covered = 0usize;
    let mut ret = 0;
    for i in idxs {
        let m = c.sys.maps[i].clone();
        let (ms, me) = (m.addr, m.addr + round_up(m.len.max(1)));
        let (os, oe) = (ms.max(a), me.min(end));
        covered += oe - os;
        if os == ms && oe == me {
            c.sys.maps[i].live = false;
            c.sys.maps[i].died = seq;
            c.ev(EvKind::Sys, 2, m.id as u64, len as u64);
            #[cfg(feature = "xen")]
            if !c.sys.maps.iter().any(|x| x.live && x.origin == m.origin) {
                if let Some(x) = c.sys.xen.as_mut() {
                    x.on_munmap(m.origin);
                }
            }
        } else {
            // part of a mapping is released: the rest stays mapped (and owed an unmap)
            c.count("sys.munmap_partial");
            c.ev(EvKind::Sys, 2, m.id as u64, (oe - os) as u64 | 1 << 62);
            let unrounded_end = ms + m.len;
            if os == ms {
                c.sys.maps[i].addr = oe;
                c.sys.maps[i].len = unrounded_end.saturating_sub(oe).max(1);
                c.sys.maps[i].off += (oe - ms) as i64;
            } else {
                c.sys.maps[i].len = os - ms;
                if oe < me {
                    let id = c.sys.next_id;
                    c.sys.next_id += 1;
                    let mut tail = m.clone();
                    tail.id = id;
                    tail.addr = oe;
                    tail.len = unrounded_end.saturating_sub(oe).max(1);
                    tail.off += (oe - ms) as i64;
                    c.sys.maps.push(tail);
                }
            }
        }
        let r = if m.resv.is_some() {
            // keep the address range reserved so that it cannot be reused during this run
            let r = libc::mmap(os as *mut libc::c_void, oe - os, libc::PROT_NONE, libc::MAP_PRIVATE | libc::MAP_ANONYMOUS | libc::MAP_FIXED | libc::MAP_NORESERVE, -1, 0);
            if r == libc::MAP_FAILED {
                -1
            } else {
                0
            }
        } else {
            libc::munmap(os as *mut libc::c_void, oe - os)
        };
        if r != 0 {
            ret = r;
        }
    }
    if covered < end - a {
        // pages that are not the library's to unmap are left alone (they may be anybody's)
        let c = cx();
        if let Some(m) = c.sys.maps.iter().find(|m| !m.live && m.died != seq && m.addr < end && m.addr + round_up(m.len.max(1)) > a) {
            let id = m.id;
            c.sys.anomalies.push(format!("second munmap of mapping #{}", id));
            c.ev(EvKind::Sys, 2, id as u64, u64::MAX);
        } else {
            c.sys.anomalies.push(format!("munmap of {} byte(s) at an address the library never mapped", len));
            c.ev(EvKind::Sys, 2, u64::MAX, len as u64);
        }
    }
    ret
}

fn next_verdict() -> IoVerdict {
    let c = cx();
    if c.mode != Mode::Actor {
        return IoVerdict::Pass;
    }
    c.sys.io_script.pop_front().unwrap_or(IoVerdict::Pass)
}

pub unsafe fn hook_read(fd: libc::c_int, buf: *mut libc::c_void, count: libc::size_t) -> libc::ssize_t {
    let c = cx();
    if c.mode == Mode::Oracle {
        return libc::read(fd, buf, count);
    }
    c.seam_events += 1;
    if c.sys.mmu_on {
        if let Some(why) = c.sys.mmu_violation(buf as usize, count) {
            c.sys.mmu_faults.push(format!("read(2) buffer of {} byte(s): {}", count, why));
            set_errno(libc::EFAULT);
            return -1;
        }
    }
    // every operation has a budget of descriptor calls (the default bounds any retry loop)
    if c.sys.io_log.len() >= c.sys.io_call_cap.unwrap_or(DEFAULT_IO_CALL_CAP) {
        std::panic::panic_any(crate::sim::SimPanic::Budget);
    }
    let v = next_verdict();
    if c.cfg.yield_sys {
        // the call blocks here for as long as the scheduler likes
        crate::sim::yield_point();
    }
    let (ret, e) = match v {
        IoVerdict::Pass => {
            let r = libc::read(fd, buf, count);
            (r, errno())
        }
        IoVerdict::Shorten(k) => {
            let r = libc::read(fd, buf, count.min(k));
            (r, errno())
        }
        IoVerdict::Zero => (0, 0),
        IoVerdict::Errno(e) => (-1, e),
    };
    let c = cx();
    match v {
        IoVerdict::Pass => {}
        IoVerdict::Shorten(_) => c.count("fault.read_short"),
        IoVerdict::Zero => c.count("fault.read_zero"),
        IoVerdict::Errno(libc::EINTR) => c.count("fault.read_eintr"),
        IoVerdict::Errno(libc::EAGAIN) => c.count("fault.read_eagain"),
        IoVerdict::Errno(_) => c.count("fault.read_errno"),
    }
    c.sys.io_log.push(IoCall {
        write: false,
        fd,
        buf: buf as usize,
        len: count,
        ret,
        errno: if ret < 0 { e } else { 0 },
        verdict: v,
    });
    c.ev(EvKind::Sys, 3, count as u64, if ret < 0 { (-(e as i64)) as u64 } else { ret as u64 });
    if ret < 0 {
        set_errno(e);
    }
    ret
}

pub unsafe fn hook_write(fd: libc::c_int, buf: *const libc::c_void, count: libc::size_t) -> libc::ssize_t {
    let c = cx();
    if c.mode == Mode::Oracle {
        return libc::write(fd, buf, count);
    }
    c.seam_events += 1;
    if c.sys.mmu_on {
        if let Some(why) = c.sys.mmu_violation(buf as usize, count) {
            c.sys.mmu_faults.push(format!("write(2) buffer of {} byte(s): {}", count, why));
            set_errno(libc::EFAULT);
            return -1;
        }
    }
    // every operation has a budget of descriptor calls (the default bounds any retry loop)
    if c.sys.io_log.len() >= c.sys.io_call_cap.unwrap_or(DEFAULT_IO_CALL_CAP) {
        std::panic::panic_any(crate::sim::SimPanic::Budget);
    }
    let v = next_verdict();
    let emulated = fd == 1 && c.sys.stdout_capture.is_some();
    let do_write = |n: usize| -> (isize, i32) {
        if emulated {
            let c = cx();
            let s = std::slice::from_raw_parts(buf as *const u8, n);
            c.sys.stdout_capture.as_mut().unwrap().extend_from_slice(s);
            (n as isize, 0)
        } else {
            let r = libc::write(fd, buf, n);
            (r, errno())
        }
    };
    let (ret, e) = match v {
        IoVerdict::Pass => do_write(count),
        IoVerdict::Shorten(k) => do_write(count.min(k)),
        IoVerdict::Zero => (0, 0),
        IoVerdict::Errno(e) => (-1, e),
    };
    let c = cx();
    match v {
        IoVerdict::Pass => {}
        IoVerdict::Shorten(_) => c.count("fault.write_short"),
        IoVerdict::Zero => c.count("fault.write_zero"),
        IoVerdict::Errno(libc::EINTR) => c.count("fault.write_eintr"),
        IoVerdict::Errno(libc::EAGAIN) => c.count("fault.write_eagain"),
        IoVerdict::Errno(_) => c.count("fault.write_errno"),
    }
    c.sys.io_log.push(IoCall {
        write: true,
        fd,
        buf: buf as usize,
        len: count,
        ret,
        errno: if ret < 0 { e } else { 0 },
        verdict: v,
    });
    c.ev(EvKind::Sys, 4, count as u64, if ret < 0 { (-(e as i64)) as u64 } else { ret as u64 });
    if ret < 0 {
        set_errno(e);
    }
    ret
}

#[allow(unused_variables)]
pub unsafe fn hook_ioctl(fd: i32, req: u64, arg: *mut u8, arg_len: usize) -> Option<i32> {
    #[cfg(feature = "xen")]
    {
        let c = cx();
        if c.sys.xen.is_some() {
            c.seam_events += 1;
            if c.cfg.yield_sys {
                crate::sim::yield_point();
            }
            let r = crate::xendev::ioctl(fd, req, arg, arg_len);
            if r != 0 {
                set_errno(libc::EINVAL);
            }
            return Some(r);
        }
    }
    None
}
