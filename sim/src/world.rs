//! Simulated guest RAM and helpers shared by the scenarios.

use std::cell::RefCell;
use vm_memory::ByteValued;

pub const PAGE: usize = 4096;
pub const CANARY: u8 = 0xC7;

/// A piece of memory of our own with PROT_NONE guard pages on both sides:
/// `[guard][data: npages][guard]`.
pub struct Arena {
    base: *mut u8,
    npages: usize,
}

thread_local! {
    static POOL: RefCell<Vec<Arena>> = const { RefCell::new(Vec::new()) };
}

impl Arena {
    pub fn get(npages: usize) -> Arena {
        if let Some(a) = POOL.with(|p| {
            let mut p = p.borrow_mut();
            p.iter().position(|a| a.npages == npages).map(|i| p.swap_remove(i))
        }) {
            a.fill(CANARY);
            return a;
        }
        let total = (npages + 2) * PAGE;
        // SAFETY: plain anonymous mapping made with the real libc (not through the seam).
        let base = unsafe { libc::mmap(std::ptr::null_mut(), total, libc::PROT_NONE, libc::MAP_PRIVATE | libc::MAP_ANONYMOUS, -1, 0) };
        assert!(base != libc::MAP_FAILED, "arena mmap failed");
        // SAFETY: inside our own mapping.
        let r = unsafe { libc::mprotect((base as *mut u8).add(PAGE) as *mut libc::c_void, npages * PAGE, libc::PROT_READ | libc::PROT_WRITE) };
        assert_eq!(r, 0);
        let a = Arena { base: base as *mut u8, npages };
        a.fill(CANARY);
        a
    }
    pub fn release(self) {
        POOL.with(|p| {
            let mut p = p.borrow_mut();
            if p.len() < 8 {
                p.push(self);
            } else {
                // SAFETY: our own mapping.
                unsafe { libc::munmap(self.base as *mut libc::c_void, (self.npages + 2) * PAGE) };
            }
        });
    }
    pub fn data(&self) -> *mut u8 {
        // SAFETY: inside the mapping.
        unsafe { self.base.add(PAGE) }
    }
    pub fn data_len(&self) -> usize {
        self.npages * PAGE
    }
    pub fn fill(&self, v: u8) {
        // SAFETY: the data pages are readable and writable.
        unsafe { std::ptr::write_bytes(self.data(), v, self.data_len()) };
    }
    /// Place a container of `size` bytes whose start address is `residue` modulo 8, as close as
    /// possible to the trailing guard page (`at_end`) or to the leading one.
    pub fn place(&self, size: usize, residue: usize, at_end: bool) -> *mut u8 {
        assert!(size + 16 <= self.data_len());
        let d = self.data() as usize;
        let start = if at_end {
            let mut s = d + self.data_len() - size;
            while s % 8 != residue % 8 {
                s -= 1;
            }
            s
        } else {
            let mut s = d;
            while s % 8 != residue % 8 {
                s += 1;
            }
            s
        };
        start as *mut u8
    }
    /// Are all data bytes outside `[ptr, ptr+size)` still canaries?
    pub fn canaries_intact(&self, ptr: *mut u8, size: usize) -> Option<usize> {
        let d = self.data() as usize;
        let (lo, hi) = (ptr as usize - d, ptr as usize - d + size);
        // SAFETY: reading our own data pages.
        let all = unsafe { std::slice::from_raw_parts(self.data(), self.data_len()) };
        // only look at a window around the container (the rest cannot be reached by small overruns
        // without crossing this window)
        let wlo = lo.saturating_sub(256);
        let whi = (hi + 256).min(all.len());
        (wlo..lo).chain(hi..whi).find(|&i| all[i] != CANARY)
    }
}

pub fn raw_read(ptr: *const u8, len: usize) -> Vec<u8> {
    let mut v = vec![0u8; len];
    // SAFETY: caller passes a live range.
    unsafe { std::ptr::copy_nonoverlapping(ptr, v.as_mut_ptr(), len) };
    v
}

pub fn raw_write(ptr: *mut u8, data: &[u8]) {
    // SAFETY: caller passes a live range.
    unsafe { std::ptr::copy_nonoverlapping(data.as_ptr(), ptr, data.len()) };
}

pub fn mk<T: ByteValued>(bytes: &[u8]) -> T {
    let mut t = T::zeroed();
    let n = std::mem::size_of::<T>();
    ByteValued::as_mut_slice(&mut t).copy_from_slice(&bytes[..n]);
    t
}

/// A local byte buffer whose start has a chosen alignment residue modulo 8.
pub struct LocalBuf {
    store: Vec<u64>,
    off: usize,
    len: usize,
    /// a buffer at a fixed host address (memory owned by somebody else who outlives it)
    ext: Option<*mut u8>,
}

impl LocalBuf {
    pub fn new(len: usize, residue: usize, fill: impl Fn(usize) -> u8) -> LocalBuf {
        let off = residue % 8;
        let words = (off + len).div_ceil(8) + 1;
        let mut b = LocalBuf { store: vec![0u64; words], off, len, ext: None };
        for (i, x) in b.as_mut().iter_mut().enumerate() {
            *x = fill(i);
        }
        b
    }
    /// A host buffer of `len` bytes at `addr`.
    ///
    /// # Safety
    /// `[addr, addr+len)` must be readable and writable memory that outlives the buffer.
    pub unsafe fn at(addr: usize, len: usize, fill: impl Fn(usize) -> u8) -> LocalBuf {
        let mut b = LocalBuf { store: Vec::new(), off: 0, len, ext: Some(addr as *mut u8) };
        for (i, x) in b.as_mut().iter_mut().enumerate() {
            *x = fill(i);
        }
        b
    }
    pub fn as_ref(&self) -> &[u8] {
        if let Some(p) = self.ext {
            // SAFETY: contract of `at`.
            return unsafe { std::slice::from_raw_parts(p, self.len) };
        }
        // SAFETY: within the u64 storage.
        unsafe { std::slice::from_raw_parts((self.store.as_ptr() as *const u8).add(self.off), self.len) }
    }
    pub fn as_mut(&mut self) -> &mut [u8] {
        if let Some(p) = self.ext {
            // SAFETY: contract of `at`.
            return unsafe { std::slice::from_raw_parts_mut(p, self.len) };
        }
        // SAFETY: within the u64 storage.
        unsafe { std::slice::from_raw_parts_mut((self.store.as_mut_ptr() as *mut u8).add(self.off), self.len) }
    }
}

/// dispatch over the provided plain-data element types by index
#[macro_export]
macro_rules! with_type {
    ($idx:expr, $T:ident => $body:expr) => {{
        use vm_memory::{Be16, Be32, Be64, Le16, Le32, Le64, LeSize};
        match $idx % 20 {
            0 => { type $T = u8; $body }
            1 => { type $T = u16; $body }
            2 => { type $T = u32; $body }
            3 => { type $T = u64; $body }
            4 => { type $T = u128; $body }
            5 => { type $T = i8; $body }
            6 => { type $T = i16; $body }
            7 => { type $T = i32; $body }
            8 => { type $T = i64; $body }
            9 => { type $T = usize; $body }
            10 => { type $T = [u8; 3]; $body }
            11 => { type $T = [u16; 5]; $body }
            12 => { type $T = [u64; 2]; $body }
            13 => { type $T = [u8; 32]; $body }
            14 => { type $T = Le16; $body }
            15 => { type $T = Le32; $body }
            16 => { type $T = Be64; $body }
            17 => { type $T = LeSize; $body }
            18 => { type $T = Be16; $body }
            _ => { type $T = [u32; 3]; $body }
        }
    }};
}

pub const TYPE_SIZES: [usize; 20] = [1, 2, 4, 8, 16, 1, 2, 4, 8, 8, 3, 10, 16, 32, 2, 4, 8, 8, 2, 12];
pub const TYPE_NAMES: [&str; 20] = ["u8", "u16", "u32", "u64", "u128", "i8", "i16", "i32", "i64", "usize", "[u8;3]", "[u16;5]", "[u64;2]", "[u8;32]", "Le16", "Le32", "Be64", "LeSize", "Be16", "[u32;3]"];

/// dispatch over the atomic-capable integer types
#[macro_export]
macro_rules! with_atomic_type {
    ($idx:expr, $T:ident => $body:expr) => {{
        match $idx % 10 {
            0 => { type $T = u8; $body }
            1 => { type $T = u16; $body }
            2 => { type $T = u32; $body }
            3 => { type $T = u64; $body }
            4 => { type $T = i8; $body }
            5 => { type $T = i16; $body }
            6 => { type $T = i32; $body }
            7 => { type $T = i64; $body }
            8 => { type $T = usize; $body }
            _ => { type $T = isize; $body }
        }
    }};
}
pub const ATOMIC_SIZES: [usize; 10] = [1, 2, 4, 8, 1, 2, 4, 8, 8, 8];
pub const ATOMIC_NAMES: [&str; 10] = ["u8", "u16", "u32", "u64", "i8", "i16", "i32", "i64", "usize", "isize"];

pub fn bytes_of<T: ByteValued>(v: &T) -> Vec<u8> {
    ByteValued::as_slice(v).to_vec()
}

/// An anonymous private mapping as a region, in either build.
pub fn anon_region<B: vm_memory::bitmap::NewBitmap>(size: usize) -> Result<vm_memory::MmapRegion<B>, vm_memory::mmap::MmapRegionError> {
    #[cfg(not(feature = "xen"))]
    {
        vm_memory::MmapRegion::<B>::new(size)
    }
    #[cfg(feature = "xen")]
    {
        vm_memory::MmapRegion::<B>::from_range(vm_memory::MmapRange::new_unix(size, None, vm_memory::GuestAddress(0)))
    }
}

/// A bitmap covering `total` bytes: built in one go or, for a third of the runs, smaller and
/// then grown by `enlarge` in one or two steps that are not multiples of the page size.
pub fn grown_bitmap(total: usize, ps: usize) -> vm_memory::bitmap::AtomicBitmap {
    use vm_memory::bitmap::AtomicBitmap;
    let psn = std::num::NonZeroUsize::new(ps).unwrap();
    let c = crate::sim::cx();
    if total < 2 || c.a(3) != 0 {
        return AtomicBitmap::new(total, psn);
    }
    let first = 1 + c.a(total as u32 - 1) as usize;
    let mut b = AtomicBitmap::new(first, psn);
    let rest = total - first;
    let step = if rest > 1 && c.a(2) == 0 { 1 + c.a(rest as u32 - 1) as usize } else { rest };
    b.enlarge(step);
    if rest > step {
        b.enlarge(rest - step);
    }
    c.count("probe.bitmap_grown_by_enlarge");
    b
}

/// Like `grown_bitmap`, but pages of the part that exists before each `enlarge` step may be marked
/// first (biased to the last page, which may share its word with pages added by the step): marks made
/// before a bitmap grows are owed to whoever harvests it afterwards. Returns the pages marked.
pub fn grown_bitmap_marked(total: usize, ps: usize) -> (vm_memory::bitmap::AtomicBitmap, std::collections::BTreeSet<usize>) {
    use vm_memory::bitmap::AtomicBitmap;
    let psn = std::num::NonZeroUsize::new(ps).unwrap();
    let c = crate::sim::cx();
    let mut marked = std::collections::BTreeSet::new();
    if total < 2 || c.a(3) != 0 {
        return (AtomicBitmap::new(total, psn), marked);
    }
    let first = 1 + c.a(total as u32 - 1) as usize;
    let mut b = AtomicBitmap::new(first, psn);
    let mut mark = |b: &AtomicBitmap, bytes: usize| {
        let c = crate::sim::cx();
        let pages = bytes.div_ceil(ps);
        for _ in 0..c.a(4) {
            let p = if c.a(2) == 0 { pages - 1 } else { c.a(pages as u32) as usize };
            b.set_bit(p);
            marked.insert(p);
        }
    };
    mark(&b, first);
    let rest = total - first;
    let step = if rest > 1 && c.a(2) == 0 { 1 + c.a(rest as u32 - 1) as usize } else { rest };
    b.enlarge(step);
    if rest > step {
        mark(&b, first + step);
        b.enlarge(rest - step);
    }
    c.count("probe.bitmap_grown_by_enlarge");
    if !marked.is_empty() {
        c.count("probe.bitmap_grown_by_enlarge_with_pages_marked");
    }
    (b, marked)
}
