#!/usr/bin/env python3
"""Run the quick check of its property against every kept seeded change; record the outcome in
seeded/<id>/meta.json (key "check_result") and print a markdown table."""
import json, os, subprocess, sys, re, time
ROOT = os.path.dirname(os.path.dirname(os.path.abspath(__file__)))
only = set(sys.argv[1:])
rows = []
NOTES = json.load(open(os.path.join(ROOT, "tools", "seeded_notes.json")))
def run_check(prop):
    env = dict(os.environ); env.setdefault("VERIF_MAX_S", "120"); env.setdefault("VERIF_SHRINK_S", "3")
    r = subprocess.run([os.path.join(ROOT, "check"), prop, "quick"], capture_output=True, text=True, env=env)
    classes = sorted(set(re.findall(r"^\s+(C\d+/\S+)", r.stderr, re.M)))
    nviol = len([l for l in r.stdout.splitlines() if l.startswith("VIOLATION")])
    if r.returncode == 1 and not classes:
        classes = [prop + "/crash"]
    return r.returncode, nviol, classes
for d in sorted(os.listdir(os.path.join(ROOT, "seeded"))):
    mp = os.path.join(ROOT, "seeded", d, "meta.json")
    if not os.path.exists(mp) or (only and d not in only):
        continue
    meta = json.load(open(mp))
    prop = meta["property"]
    assert subprocess.run(["git", "-C", "/repo", "status", "--porcelain", "--untracked-files=no"], capture_output=True, text=True).stdout.strip() == "", "repo dirty"
    subprocess.run(["git", "-C", "/repo", "apply", os.path.join(ROOT, "seeded", d, "patch.diff")], check=True)
    try:
        t0 = time.time()
        rc, nviol, classes = run_check(prop)
        others = {}
        for p2 in NOTES.get(d, {}).get("also", []):
            rc2, nv2, cl2 = run_check(p2)
            others[p2] = {"exit": rc2, "violation_classes": cl2}
    finally:
        subprocess.run(["git", "-C", "/repo", "checkout", "--", "."], check=True)
    prev = meta.get("check_result", {})
    meta["check_result"] = {"check": prop, "tier": "quick", "exit": rc, "violation_lines": nviol, "violation_classes": classes, "wall_s": round(time.time() - t0, 1), "note": NOTES.get(d, {}).get("note", prev.get("note", ""))}
    if others:
        meta["check_result"]["other_checks"] = others
    meta.setdefault("what_i_ran", f"tools/confirm_seeded.py (existing tests with the change: pass; demonstration with the change: fail; without: pass) and tools/seeded_all.py (git -C /repo apply patch.diff; ./check {prop} quick; git -C /repo checkout -- .)")
    json.dump(meta, open(mp, "w"), indent=1)
    print(d, rc, classes, others if others else "", flush=True)
