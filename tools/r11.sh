#!/bin/bash
# usage: tools/r11.sh <prop> ...   round-11 helper (same as r10.sh, worktrees /tmp/wt11-<prop>)
for p in "$@"; do
  off=$(cat /verif/out/r11-off-$p 2>/dev/null)
  if [ -z "$off" ]; then
    off=$(ls -d /verif/seeded/$p-* 2>/dev/null | sed "s/.*-//" | sort -n | tail -1); off=${off:-0}
    echo $off > /verif/out/r11-off-$p
  fi
  /verif/tools/round.sh /tmp/wt11- $off $p > /verif/out/r11-$p.log 2>&1
done
