#!/usr/bin/env python3
"""Sensitivity runner: apply each deliberate property-breaking mutation to /repo's working tree,
run the quick check of the property it is meant to break, and undo it (git checkout).
usage: tools/mutants.py [--prop C08] [--id M08a ...] [--tier quick]
Results are appended to mutants/results.jsonl; a summary table is printed."""
import json, subprocess, sys, time, os, re
ROOT = os.path.dirname(os.path.dirname(os.path.abspath(__file__)))
REPO = "/repo"

def load():
    ms = []
    for fn in sorted(os.listdir(os.path.join(ROOT, "mutants"))):
        if fn.endswith(".json"):
            ms += json.load(open(os.path.join(ROOT, "mutants", fn)))
    return ms

def main():
    args = sys.argv[1:]
    props, ids, tier = set(), set(), "quick"
    i = 0
    while i < len(args):
        if args[i] == "--prop": props.add(args[i+1]); i += 2
        elif args[i] == "--id": ids.add(args[i+1]); i += 2
        elif args[i] == "--tier": tier = args[i+1]; i += 2
        else: i += 1
    assert subprocess.run(["git", "-C", REPO, "status", "--porcelain", "--untracked-files=no"], capture_output=True, text=True).stdout.strip() == "", "repo dirty"
    rows = []
    for m in load():
        if props and m["prop"] not in props: continue
        if ids and m["id"] not in ids: continue
        try:
            for ed in m["edits"]:
                p = os.path.join(REPO, ed["file"])
                s = open(p).read()
                n = s.count(ed["old"])
                assert n == ed.get("count", 1), f"{m['id']}: pattern occurs {n} times in {ed['file']}"
                s = s.replace(ed["old"], ed["new"])
                open(p, "w").write(s)
            t0 = time.time()
            env = dict(os.environ)
            env.setdefault("VERIF_MAX_S", "120")
            r = subprocess.run([os.path.join(ROOT, "check"), m["prop"], tier], capture_output=True, text=True, env=env)
            dt = time.time() - t0
            viol = [l for l in r.stdout.splitlines() if l.startswith("VIOLATION")]
            classes = sorted(set(re.findall(r"^\s+(C\d+/\S+)", r.stderr, re.M)))
            row = {"id": m["id"], "prop": m["prop"], "what": m["what"], "exit": r.returncode, "violations": len(viol), "classes": classes, "wall_s": round(dt, 1)}
            if r.returncode == 2:
                row["stderr"] = r.stderr[-600:]
        finally:
            subprocess.run(["git", "-C", REPO, "checkout", "--", "."], check=True)
        rows.append(row)
        print(json.dumps(row), flush=True)
        with open(os.path.join(ROOT, "mutants", "results.jsonl"), "a") as f:
            f.write(json.dumps(row) + "\n")
    caught = sum(1 for r in rows if r["exit"] == 1)
    print(f"caught {caught}/{len(rows)}")
    # leave no replay files of mutants behind
    return 0

if __name__ == "__main__":
    sys.exit(main())
