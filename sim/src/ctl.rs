//! Controller, worker processes, shrinking, replay and evidence.

use crate::json::{self, J};
use crate::rng::run_seed;
use crate::scen::{self, Scenario};
use crate::sim::{self, catch, cx, fmt_ev, with_ctx, Ctx, OpOutcome, Tape, Violation};
use std::collections::{BTreeMap, BTreeSet};
use std::io::Write;
use std::path::{Path, PathBuf};
use std::process::{Command, Stdio};
use std::time::Instant;

pub const DEFAULT_SEED: u64 = 20261002;

pub fn root() -> PathBuf {
    PathBuf::from(std::env::var("VERIF_ROOT").unwrap_or_else(|_| "/verif".into()))
}

pub fn build_name() -> &'static str {
    if cfg!(feature = "xen") {
        "xen"
    } else {
        "unix"
    }
}

pub struct RunOutcome {
    pub hash: u64,
    pub nontrivial: bool,
    pub violations: Vec<Violation>,
    pub counters: BTreeMap<&'static str, u64>,
    pub tape_a: Vec<u32>,
    pub tape_b: Vec<u32>,
    pub desc: Option<J>,
    pub cell: Option<(String, u64)>,
    pub discarded: bool,
    pub harness_error: Option<String>,
    pub seam_events: u64,
    pub events: usize,
    pub trace: Vec<String>,
}

static HEARTBEAT: std::sync::atomic::AtomicU64 = std::sync::atomic::AtomicU64::new(0);

/// Safety net for code under test that stops making progress without passing a seam (every
/// seam has its own deterministic budget): a run that takes longer than VMSIM_HANG_S seconds
/// of wall-clock time (default 300; an ordinary run takes well under a millisecond) or more than
/// VMSIM_MEM_MB of address space aborts the process, which the controller reports as a crash of
/// that run and confirms by replaying it under the same two limits.
pub fn install_watchdog() {
    let secs: u64 = std::env::var("VMSIM_HANG_S").ok().and_then(|s| s.parse().ok()).unwrap_or(300);
    let mb: u64 = std::env::var("VMSIM_MEM_MB").ok().and_then(|s| s.parse().ok()).unwrap_or(6144);
    // SAFETY: plain setrlimit on our own process.
    unsafe {
        let lim = libc::rlimit { rlim_cur: mb << 20, rlim_max: mb << 20 };
        libc::setrlimit(libc::RLIMIT_AS, &lim);
    }
    std::thread::spawn(move || {
        let mut last = HEARTBEAT.load(std::sync::atomic::Ordering::Relaxed);
        let mut idle = 0u64;
        loop {
            std::thread::sleep(std::time::Duration::from_secs(1));
            let now = HEARTBEAT.load(std::sync::atomic::Ordering::Relaxed);
            if now != last {
                last = now;
                idle = 0;
            } else {
                idle += 1;
                if idle >= secs {
                    eprintln!("vmsim: a run made no progress for {} s of wall-clock time; aborting the process", secs);
                    std::process::abort();
                }
            }
        }
    });
}

pub fn run_one(scen: &dyn Scenario, tape: Tape, trace: bool) -> RunOutcome {
    HEARTBEAT.fetch_add(1, std::sync::atomic::Ordering::Relaxed);
    let mut ctx = Ctx::new(tape, trace);
    let info = with_ctx(&mut ctx, || {
        let r = catch(|| scen.run());
        cx().mode = sim::Mode::Oracle;
        r
    });
    ctx.sys.cleanup();
    let mut harness_error = ctx.harness_error.take();
    let (nontrivial, desc, cell) = match info {
        OpOutcome::Ok(i) => (i.nontrivial, i.desc, i.cell),
        OpOutcome::Panic(m) => {
            harness_error = Some(format!("scenario {} panicked outside an operation: {}", scen.name(), m));
            (false, None, None)
        }
        OpOutcome::Sim(s) => {
            harness_error = Some(format!("scenario {} aborted by the simulator outside an operation: {:?}", scen.name(), s));
            (false, None, None)
        }
    };
    let (ua, ub) = ctx.tape.used();
    let trace_lines = if trace { ctx.events.iter().take(400).map(fmt_ev).collect() } else { Vec::new() };
    RunOutcome {
        hash: ctx.hash,
        nontrivial,
        violations: std::mem::take(&mut ctx.violations),
        counters: std::mem::take(&mut ctx.counters),
        tape_a: ctx.tape.a[..ua.min(ctx.tape.a.len())].to_vec(),
        tape_b: ctx.tape.b[..ub.min(ctx.tape.b.len())].to_vec(),
        desc,
        cell,
        discarded: ctx.discarded,
        harness_error,
        seam_events: ctx.seam_events,
        events: ctx.events.len(),
        trace: trace_lines,
    }
}

// ---------------------------------------------------------------------------------------------
// known findings

pub struct Known {
    pub entries: Vec<(String, String, String, String)>, // property, status, fingerprint, what
}

pub fn load_known() -> Known {
    let p = root().join("known_findings.json");
    let mut entries = Vec::new();
    if let Ok(s) = std::fs::read_to_string(&p) {
        if let Ok(J::Arr(a)) = json::parse(&s) {
            for e in a {
                let g = |k: &str| e.get(k).and_then(|v| v.as_str()).unwrap_or("").to_string();
                entries.push((g("property"), g("status"), g("fingerprint"), g("what")));
            }
        }
    }
    Known { entries }
}

impl Known {
    pub fn matches(&self, v: &Violation) -> Option<&str> {
        self.entries
            .iter()
            .find(|(p, st, fp, _)| p == v.property && st == "known" && *fp == format!("{} {}", v.class, v.fingerprint))
            .map(|e| e.3.as_str())
    }
}

// ---------------------------------------------------------------------------------------------
// shrinking

fn fails_same(scen: &dyn Scenario, prop: &str, class: &str, a: &[u32], b: &[u32]) -> Option<RunOutcome> {
    let o = run_one(scen, Tape::replay(a.to_vec(), b.to_vec()), false);
    if o.harness_error.is_none() && o.violations.iter().any(|v| v.property == prop && v.class == class) {
        Some(o)
    } else {
        None
    }
}

pub fn shrink(scen: &dyn Scenario, prop: &str, class: &str, a0: Vec<u32>, b0: Vec<u32>) -> (Vec<u32>, Vec<u32>, u32) {
    let t0 = Instant::now();
    let mut execs = 0u32;
    let mut a = a0;
    let mut b = b0;
    // VERIF_SHRINK_S: wall-clock budget of the shrinker per violation (regression runs over many
    // seeded changes use a small one; the verdict does not depend on it)
    let shrink_s: u64 = std::env::var("VERIF_SHRINK_S").ok().and_then(|s| s.parse().ok()).unwrap_or(30);
    let budget_ok = |execs: u32| execs < 2000 && t0.elapsed().as_secs() < shrink_s;
    let mut try_ab = |na: &Vec<u32>, nb: &Vec<u32>, execs: &mut u32| -> Option<(Vec<u32>, Vec<u32>)> {
        *execs += 1;
        fails_same(scen, prop, class, na, nb).map(|o| (o.tape_a, o.tape_b))
    };
    // schedule: all zeros?
    if b.iter().any(|&x| x != 0) {
        let nb = vec![0; b.len()];
        if let Some((ra, rb)) = try_ab(&a, &nb, &mut execs) {
            a = ra;
            b = rb;
        }
    }
    let mut progress = true;
    while progress && budget_ok(execs) {
        progress = false;
        // delete chunks of the workload tape
        for chunk in [16usize, 8, 4, 2, 1] {
            let mut i = a.len();
            while i >= chunk && budget_ok(execs) {
                let st = i - chunk;
                let mut na = a.clone();
                na.drain(st..i);
                if let Some((ra, rb)) = try_ab(&na, &b, &mut execs) {
                    a = ra;
                    b = rb;
                    progress = true;
                    i = st.min(a.len());
                } else {
                    i -= 1;
                }
            }
        }
        // zero chunks, then single entries, of both tapes
        for which in 0..2 {
            let len = if which == 0 { a.len() } else { b.len() };
            for chunk in [8usize, 1] {
                let mut i = 0;
                while i < len && budget_ok(execs) {
                    let (mut na, mut nb) = (a.clone(), b.clone());
                    let t = if which == 0 { &mut na } else { &mut nb };
                    let end = (i + chunk).min(t.len());
                    if i >= t.len() || t[i..end].iter().all(|&x| x == 0) {
                        i += chunk;
                        continue;
                    }
                    for x in t[i..end].iter_mut() {
                        *x = 0;
                    }
                    if let Some((ra, rb)) = try_ab(&na, &nb, &mut execs) {
                        a = ra;
                        b = rb;
                        progress = true;
                    }
                    i += chunk;
                }
            }
        }
        // halve / decrement values
        for which in 0..2 {
            let len = if which == 0 { a.len() } else { b.len() };
            for i in 0..len {
                if !budget_ok(execs) {
                    break;
                }
                let cur = if which == 0 { a.get(i).copied() } else { b.get(i).copied() };
                let Some(v) = cur else { break };
                if v <= 1 {
                    continue;
                }
                for nv in [v / 2, v - 1] {
                    let (mut na, mut nb) = (a.clone(), b.clone());
                    if which == 0 {
                        na[i] = nv
                    } else {
                        nb[i] = nv
                    }
                    if let Some((ra, rb)) = try_ab(&na, &nb, &mut execs) {
                        a = ra;
                        b = rb;
                        progress = true;
                        break;
                    }
                }
            }
        }
    }
    (a, b, execs)
}

// ---------------------------------------------------------------------------------------------
// replay files

fn tape_json(t: &[u32]) -> J {
    J::Arr(t.iter().map(|&x| J::Int(x as i128)).collect())
}

#[allow(clippy::too_many_arguments)]
pub fn write_replay(path: &Path, build: &str, prop: &str, scen_name: &str, seed: u64, run: u64, a: Option<&[u32]>, b: Option<&[u32]>, v: Option<&Violation>, o: Option<&RunOutcome>, minimised: bool, shrink_execs: u32) {
    let mut j = J::obj()
        .set("property", J::s(prop))
        .set("scenario", J::s(scen_name))
        .set("build", J::s(build))
        .set("seed", J::i(seed))
        .set("run", J::i(run))
        .set("tape_a", a.map(tape_json).unwrap_or(J::Null))
        .set("tape_b", b.map(tape_json).unwrap_or(J::Null))
        .set("minimised", J::Bool(minimised))
        .set("shrink_executions", J::i(shrink_execs));
    if let Some(v) = v {
        j.put("violation", J::obj().set("class", J::s(&v.class)).set("fingerprint", J::s(&v.fingerprint)).set("message", J::s(&v.message)));
    }
    if let Some(o) = o {
        j.put("event_hash", J::s(format!("{:016x}", o.hash)));
        if let Some(d) = &o.desc {
            j.put("run", J::i(run));
            j.put("description", d.clone());
        }
        j.put("trace", J::strs(o.trace.clone()));
    }
    let _ = std::fs::create_dir_all(path.parent().unwrap());
    let _ = std::fs::write(path, j.to_string_pretty());
}

pub fn cmd_replay(path: &str) -> i32 {
    sim::install_panic_hook();
    install_watchdog();
    let s = match std::fs::read_to_string(path) {
        Ok(s) => s,
        Err(e) => {
            eprintln!("cannot read {}: {}", path, e);
            return 2;
        }
    };
    let j = match json::parse(&s) {
        Ok(j) => j,
        Err(e) => {
            eprintln!("bad replay file: {}", e);
            return 2;
        }
    };
    let sname = j.get("scenario").and_then(|v| v.as_str()).unwrap_or("");
    let build = j.get("build").and_then(|v| v.as_str()).unwrap_or("unix");
    if build != build_name() {
        eprintln!("replay file is for the {} build; this is the {} build", build, build_name());
        return 2;
    }
    let Some(scen) = scen::find_scenario(sname) else {
        eprintln!("unknown scenario {}", sname);
        return 2;
    };
    let prop = j.get("property").and_then(|v| v.as_str()).unwrap_or("");
    let seed = j.get("seed").and_then(|v| v.as_i()).unwrap_or(0) as u64;
    let run = j.get("run").and_then(|v| v.as_i()).unwrap_or(0) as u64;
    let tv = |k: &str| -> Option<Vec<u32>> { j.get(k).and_then(|v| v.as_arr()).map(|a| a.iter().map(|x| x.as_i().unwrap_or(0) as u32).collect()) };
    let tape = match (tv("tape_a"), tv("tape_b")) {
        (Some(a), Some(b)) => Tape::replay(a, b),
        _ => Tape::record(run_seed(seed, scen.name(), run)),
    };
    let want_class = j.get("violation").and_then(|v| v.get("class")).and_then(|v| v.as_str()).unwrap_or("").to_string();
    let want_hash = j.get("event_hash").and_then(|v| v.as_str()).unwrap_or("").to_string();
    let o = run_one(scen, tape, true);
    println!("replay {} scenario={} seed={} run={} event_hash={:016x}", path, sname, seed, run, o.hash);
    if let Some(d) = &o.desc {
        println!("{}", d.to_string_pretty());
    }
    for l in o.trace.iter().take(120) {
        println!("  {}", l);
    }
    if let Some(e) = &o.harness_error {
        println!("HARNESS-ERROR {}", e);
        return 2;
    }
    let mut hit = false;
    for v in &o.violations {
        println!("violation property={} class={} [{}]: {}", v.property, v.class, v.fingerprint, v.message);
        if v.property == prop && (want_class.is_empty() || v.class == want_class) {
            hit = true;
        }
    }
    if hit {
        let same_hash = want_hash.is_empty() || want_hash == format!("{:016x}", o.hash);
        println!("REPRODUCED property={} class={} same_event_hash={}", prop, want_class, same_hash);
        1
    } else {
        println!("NOT-REPRODUCED property={} class={}", prop, want_class);
        0
    }
}

// ---------------------------------------------------------------------------------------------
// worker

pub struct WorkerArgs {
    pub scenario: String,
    pub prop: String,
    pub seed: u64,
    pub start: u64,
    pub stride: u64,
    pub end: u64,
    pub out: PathBuf,
    pub max_s: u64,
}

pub fn cmd_worker(w: WorkerArgs) -> i32 {
    sim::install_panic_hook();
    install_watchdog();
    let Some(scen) = scen::find_scenario(&w.scenario) else {
        eprintln!("unknown scenario {}", w.scenario);
        return 2;
    };
    let known = load_known();
    let t0 = Instant::now();
    let cur_path = w.out.with_extension("cur");
    let mut cur_file = std::fs::File::create(&cur_path).ok();
    let mut runs = 0u64;
    let mut nontrivial = 0u64;
    let mut discarded = 0u64;
    let mut hashes: Vec<u64> = Vec::new();
    let mut hashes_capped = false;
    let mut counters: BTreeMap<String, u64> = BTreeMap::new();
    let mut cells: BTreeMap<String, (u64, BTreeSet<u64>)> = BTreeMap::new();
    let mut seam_events = 0u64;
    let mut events = 0u64;
    let mut det_pairs = 0u64;
    let mut det_mismatch = 0u64;
    let mut harness_errors: Vec<String> = Vec::new();
    let mut known_seen: BTreeMap<String, u64> = BTreeMap::new();
    let mut found: Vec<J> = Vec::new();
    let mut seen_fp: BTreeSet<String> = BTreeSet::new();
    let mut other_prop = 0u64;
    let mut samples: Vec<J> = Vec::new();
    let mut digest: u64 = 0;
    let mut run = w.start;
    while run < w.end {
        if w.max_s > 0 && t0.elapsed().as_secs() >= w.max_s {
            break;
        }
        if let Some(f) = cur_file.as_mut() {
            use std::os::unix::fs::FileExt;
            let _ = f.write_at(&run.to_le_bytes(), 0);
        }
        let rs = run_seed(w.seed, scen.name(), run);
        let o = run_one(scen, Tape::record(rs), false);
        runs += 1;
        digest = digest.wrapping_add(o.hash.wrapping_mul(2 * run + 1));
        seam_events += o.seam_events;
        events += o.events as u64;
        for (k, v) in &o.counters {
            *counters.entry(k.to_string()).or_insert(0) += v;
        }
        if let Some(e) = &o.harness_error {
            if harness_errors.len() < 5 {
                harness_errors.push(format!("run {}: {}", run, e));
            }
        }
        if o.discarded {
            discarded += 1;
        }
        if o.nontrivial {
            nontrivial += 1;
            if hashes.len() < 3_000_000 {
                hashes.push(o.hash);
            } else {
                hashes_capped = true;
            }
            if samples.len() < 2 && w.start == 0 {
                let t = run_one(scen, Tape::replay(o.tape_a.clone(), o.tape_b.clone()), true);
                if let Some(d) = t.desc {
                    samples.push(J::obj().set("scenario", J::s(scen.name())).set("run", J::i(run)).set("case", d));
                }
            }
        }
        if let Some((label, sig)) = &o.cell {
            let e = cells.entry(label.clone()).or_insert((0, BTreeSet::new()));
            e.0 += 1;
            if e.1.len() < 5_000 {
                e.1.insert(*sig);
            }
        }
        if runs % 97 == 1 {
            let o2 = run_one(scen, Tape::replay(o.tape_a.clone(), o.tape_b.clone()), false);
            det_pairs += 1;
            if o2.hash != o.hash || o2.violations.len() != o.violations.len() {
                det_mismatch += 1;
                if harness_errors.len() < 5 {
                    harness_errors.push(format!("run {}: replay of the recorded tape gave event hash {:016x} instead of {:016x}", run, o2.hash, o.hash));
                }
            }
        }
        for v in &o.violations {
            if v.property != w.prop {
                other_prop += 1;
                continue;
            }
            if let Some(what) = known.matches(v) {
                *known_seen.entry(what.to_string()).or_insert(0) += 1;
                continue;
            }
            let fp = format!("{} {}", v.class, v.fingerprint);
            if !seen_fp.insert(fp.clone()) {
                continue;
            }
            // shrink, write replay files
            let dir = root().join("replays");
            let base = format!("{}-{}-{}-{}", w.prop, w.seed, run, build_name());
            let orig_path = dir.join(format!("{}.orig.json", base));
            let to = run_one(scen, Tape::replay(o.tape_a.clone(), o.tape_b.clone()), true);
            write_replay(&orig_path, build_name(), &w.prop, scen.name(), w.seed, run, Some(&o.tape_a), Some(&o.tape_b), Some(v), Some(&to), false, 0);
            let (sa, sb, execs) = shrink(scen, &w.prop, &v.class, o.tape_a.clone(), o.tape_b.clone());
            let so = run_one(scen, Tape::replay(sa.clone(), sb.clone()), true);
            let min_path = dir.join(format!("{}.json", base));
            let sv = so.violations.iter().find(|x| x.property == w.prop && x.class == v.class).cloned();
            let usable = sv.is_some();
            if usable {
                write_replay(&min_path, build_name(), &w.prop, scen.name(), w.seed, run, Some(&sa), Some(&sb), sv.as_ref(), Some(&so), true, execs);
            }
            found.push(
                J::obj()
                    .set("run", J::i(run))
                    .set("class", J::s(&v.class))
                    .set("fingerprint", J::s(&v.fingerprint))
                    .set("message", J::s(&v.message))
                    .set("orig", J::s(orig_path.to_string_lossy()))
                    .set("min", if usable { J::s(min_path.to_string_lossy()) } else { J::Null })
                    .set("tape_len", J::i(o.tape_a.len() + o.tape_b.len()))
                    .set("min_tape_len", J::i(sa.len() + sb.len())),
            );
        }
        if found.len() >= 3 {
            break;
        }
        run += w.stride;
    }
    // write results
    let cellj = J::Obj(cells.iter().map(|(k, (n, s))| (k.clone(), J::obj().set("runs", J::i(*n)).set("sigs", J::Arr(s.iter().map(|&x| J::Int(x as i128)).collect())))).collect());
    let j = J::obj()
        .set("runs", J::i(runs))
        .set("digest", J::i(digest))
        .set("nontrivial", J::i(nontrivial))
        .set("discarded", J::i(discarded))
        .set("hashes_capped", J::Bool(hashes_capped))
        .set("counters", J::from_map(&counters))
        .set("cells", cellj)
        .set("seam_events", J::i(seam_events))
        .set("events", J::i(events))
        .set("det_pairs", J::i(det_pairs))
        .set("det_mismatch", J::i(det_mismatch))
        .set("harness_errors", J::strs(harness_errors))
        .set("known_seen", J::from_map(&known_seen))
        .set("other_property_violations", J::i(other_prop))
        .set("found", J::Arr(found))
        .set("samples", J::Arr(samples))
        .set("wall_s", J::Float(t0.elapsed().as_secs_f64()));
    let mut hb = Vec::with_capacity(hashes.len() * 8);
    for h in &hashes {
        hb.extend_from_slice(&h.to_le_bytes());
    }
    let _ = std::fs::write(w.out.with_extension("hashes"), hb);
    let _ = std::fs::write(&w.out, j.to_string_compact());
    let _ = std::fs::remove_file(&cur_path);
    0
}

// ---------------------------------------------------------------------------------------------
// controller

struct PartResult {
    digest: u64,
    scenario: String,
    xen: bool,
    runs: u64,
    nontrivial: u64,
    discarded: u64,
    hashes: Vec<u64>,
    hashes_capped: bool,
    counters: BTreeMap<String, u64>,
    cells: BTreeMap<String, (u64, BTreeSet<u64>)>,
    seam_events: u64,
    events: u64,
    det_pairs: u64,
    det_mismatch: u64,
    harness_errors: Vec<String>,
    known_seen: BTreeMap<String, u64>,
    found: Vec<J>,
    samples: Vec<J>,
    crashes: Vec<(u64, i32)>,
    wall_s: f64,
}

#[allow(clippy::too_many_arguments)]
fn run_part(exe: &Path, scen_name: &str, xen: bool, prop: &str, seed: u64, total: u64, workers: u64, max_s: u64, tmp: &Path) -> PartResult {
    let t0 = Instant::now();
    let mut pr = PartResult {
        digest: 0,
        scenario: scen_name.to_string(),
        xen,
        runs: 0,
        nontrivial: 0,
        discarded: 0,
        hashes: Vec::new(),
        hashes_capped: false,
        counters: BTreeMap::new(),
        cells: BTreeMap::new(),
        seam_events: 0,
        events: 0,
        det_pairs: 0,
        det_mismatch: 0,
        harness_errors: Vec::new(),
        known_seen: BTreeMap::new(),
        found: Vec::new(),
        samples: Vec::new(),
        crashes: Vec::new(),
        wall_s: 0.0,
    };
    // (worker index, start) jobs; a crashed worker is restarted after the crashing run
    let mut jobs: Vec<(u64, u64, u32)> = (0..workers).map(|i| (i, i, 0)).collect();
    while !jobs.is_empty() {
        let mut children = Vec::new();
        for &(wi, start, gen) in &jobs {
            let out = tmp.join(format!("w-{}-{}-{}.json", scen_name.replace('/', "_"), wi, gen));
            let child = Command::new(exe)
                .arg("worker")
                .arg(scen_name)
                .arg(prop)
                .arg(seed.to_string())
                .arg(start.to_string())
                .arg(workers.to_string())
                .arg(total.to_string())
                .arg(&out)
                .arg(max_s.to_string())
                .stdin(Stdio::null())
                .spawn();
            match child {
                Ok(c) => children.push((wi, start, gen, out, c)),
                Err(e) => pr.harness_errors.push(format!("cannot spawn worker: {}", e)),
            }
        }
        jobs.clear();
        for (wi, _start, gen, out, mut child) in children {
            let status = child.wait();
            let ok = matches!(&status, Ok(s) if s.success());
            if !ok {
                // crashed: which run?
                let curp = out.with_extension("cur");
                let run = std::fs::read(&curp).ok().filter(|b| b.len() >= 8).map(|b| u64::from_le_bytes(b[..8].try_into().unwrap()));
                let sig = {
                    use std::os::unix::process::ExitStatusExt;
                    status.as_ref().ok().and_then(|s| s.signal()).unwrap_or(0)
                };
                match run {
                    Some(r) if sig != 0 => {
                        pr.crashes.push((r, sig));
                        if gen < 3 {
                            jobs.push((wi, r + workers, gen + 1));
                        }
                    }
                    _ => pr.harness_errors.push(format!("worker {} of {} exited abnormally ({:?})", wi, scen_name, status)),
                }
                let _ = std::fs::remove_file(&curp);
                continue;
            }
            let Ok(s) = std::fs::read_to_string(&out) else {
                pr.harness_errors.push(format!("worker {} wrote no result", wi));
                continue;
            };
            let Ok(j) = json::parse(&s) else {
                pr.harness_errors.push(format!("worker {} wrote an unreadable result", wi));
                continue;
            };
            let gi = |k: &str| j.get(k).and_then(|v| v.as_i()).unwrap_or(0) as u64;
            pr.runs += gi("runs");
            pr.digest = pr.digest.wrapping_add(gi("digest"));
            pr.nontrivial += gi("nontrivial");
            pr.discarded += gi("discarded");
            pr.seam_events += gi("seam_events");
            pr.events += gi("events");
            pr.det_pairs += gi("det_pairs");
            pr.det_mismatch += gi("det_mismatch");
            pr.hashes_capped |= j.get("hashes_capped").and_then(|v| v.as_bool()).unwrap_or(false);
            for k in ["counters", "known_seen"] {
                if let Some(J::Obj(o)) = j.get(k) {
                    for (kk, v) in o {
                        let t = if k == "counters" { &mut pr.counters } else { &mut pr.known_seen };
                        *t.entry(kk.clone()).or_insert(0) += v.as_i().unwrap_or(0) as u64;
                    }
                }
            }
            if let Some(J::Obj(o)) = j.get("cells") {
                for (kk, v) in o {
                    let e = pr.cells.entry(kk.clone()).or_insert((0, BTreeSet::new()));
                    e.0 += v.get("runs").and_then(|x| x.as_i()).unwrap_or(0) as u64;
                    if let Some(a) = v.get("sigs").and_then(|x| x.as_arr()) {
                        for s in a {
                            e.1.insert(s.as_i().unwrap_or(0) as u64);
                        }
                    }
                }
            }
            if let Some(a) = j.get("harness_errors").and_then(|v| v.as_arr()) {
                for e in a {
                    if pr.harness_errors.len() < 10 {
                        pr.harness_errors.push(e.as_str().unwrap_or("").to_string());
                    }
                }
            }
            if let Some(a) = j.get("found").and_then(|v| v.as_arr()) {
                pr.found.extend(a.iter().cloned());
            }
            if let Some(a) = j.get("samples").and_then(|v| v.as_arr()) {
                pr.samples.extend(a.iter().cloned());
            }
            if let Ok(hb) = std::fs::read(out.with_extension("hashes")) {
                for c in hb.chunks_exact(8) {
                    pr.hashes.push(u64::from_le_bytes(c.try_into().unwrap()));
                }
            }
            let _ = std::fs::remove_file(&out);
            let _ = std::fs::remove_file(out.with_extension("hashes"));
        }
    }
    pr.wall_s = t0.elapsed().as_secs_f64();
    pr
}

fn fresh_replay(exe: &Path, path: &str) -> (i32, String) {
    match Command::new(exe).arg("replay").arg(path).stdin(Stdio::null()).output() {
        Ok(o) => (o.status.code().unwrap_or(-1), String::from_utf8_lossy(&o.stdout).into_owned()),
        Err(e) => (-1, e.to_string()),
    }
}

pub fn cmd_check(prop: &str, tier: &str, xen_bin: Option<&str>) -> i32 {
    let t0 = Instant::now();
    let Some(check) = scen::find_check(prop) else {
        eprintln!("no check for property {}", prop);
        return 2;
    };
    let seed: u64 = std::env::var("VERIF_SEED").ok().and_then(|s| s.trim().parse().ok()).unwrap_or(DEFAULT_SEED);
    let workers: u64 = std::env::var("VERIF_WORKERS").ok().and_then(|s| s.parse().ok()).unwrap_or(16).max(1);
    let scale: f64 = std::env::var("VERIF_SCALE").ok().and_then(|s| s.parse().ok()).unwrap_or(1.0);
    let thorough = tier == "thorough";
    let max_s: u64 = std::env::var("VERIF_MAX_S").ok().and_then(|s| s.parse().ok()).unwrap_or(if thorough { 1500 } else { 150 });
    let me = std::env::current_exe().unwrap();
    let tmp = root().join("out").join(format!("tmp-{}-{}", prop, std::process::id()));
    let _ = std::fs::create_dir_all(&tmp);
    let _ = std::fs::create_dir_all(root().join("replays"));
    let _ = std::fs::create_dir_all(root().join("evidence"));
    let mut parts = Vec::new();
    let mut skipped_parts = Vec::new();
    for p in &check.parts {
        let exe: PathBuf = if p.xen {
            match xen_bin {
                Some(x) => PathBuf::from(x),
                None => {
                    skipped_parts.push(p.name.to_string());
                    continue;
                }
            }
        } else {
            me.clone()
        };
        let total = ((if thorough { p.thorough } else { p.quick }) as f64 * scale) as u64;
        let total = total.max(workers);
        let pr = run_part(&exe, p.name, p.xen, prop, seed, total, workers, max_s, &tmp);
        parts.push((exe, pr));
    }
    let _ = std::fs::remove_dir_all(&tmp);

    // ----- violations: confirm each in a fresh process ---------------------------------------
    let mut violation_lines: Vec<String> = Vec::new();
    let mut harness_errors: Vec<String> = Vec::new();
    let mut reported_fp: BTreeSet<String> = BTreeSet::new();
    let mut viol_json = Vec::new();
    for (exe, pr) in &parts {
        for f in &pr.found {
            let fp = format!("{} {}", f.get("class").and_then(|v| v.as_str()).unwrap_or(""), f.get("fingerprint").and_then(|v| v.as_str()).unwrap_or(""));
            if !reported_fp.insert(fp.clone()) || violation_lines.len() >= 6 {
                continue;
            }
            let min = f.get("min").and_then(|v| v.as_str()).map(|s| s.to_string());
            let orig = f.get("orig").and_then(|v| v.as_str()).unwrap_or("").to_string();
            let mut chosen = None;
            if let Some(m) = &min {
                let (code, _) = fresh_replay(exe, m);
                if code == 1 {
                    chosen = Some(m.clone());
                }
            }
            if chosen.is_none() {
                let (code, _) = fresh_replay(exe, &orig);
                if code == 1 {
                    chosen = Some(orig.clone());
                }
            }
            match chosen {
                Some(p) => {
                    violation_lines.push(format!("VIOLATION property={} replay={}", prop, p));
                    eprintln!("  {}: {}", fp, f.get("message").and_then(|v| v.as_str()).unwrap_or(""));
                    viol_json.push(f.clone().set("replay", J::s(p)));
                }
                None => harness_errors.push(format!("violation {} in run {} did not reproduce in a fresh process (nondeterministic harness)", fp, f.get("run").and_then(|v| v.as_i()).unwrap_or(-1))),
            }
        }
        for (run, sig) in &pr.crashes {
            // a real signal: confirm by re-running that single run in a fresh process
            let path = root().join("replays").join(format!("{}-{}-{}-{}.crash.json", prop, seed, run, if pr.xen { "xen" } else { "unix" }));
            {
                let v = Violation { property: "", class: format!("{}/crash", prop), fingerprint: format!("signal {}", sig), message: format!("worker killed by signal {} during this run", sig) };
                write_replay(&path, if pr.xen { "xen" } else { "unix" }, prop, &pr.scenario, seed, *run, None, None, Some(&v), None, false, 0);
            }
            let st = Command::new(exe).arg("replay").arg(&path).stdin(Stdio::null()).stdout(Stdio::null()).status();
            let died = {
                use std::os::unix::process::ExitStatusExt;
                st.as_ref().ok().and_then(|s| s.signal()).is_some()
            };
            if died {
                if violation_lines.len() < 6 {
                    violation_lines.push(format!("VIOLATION property={} replay={}", prop, path.to_string_lossy()));
                    viol_json.push(J::obj().set("run", J::i(*run)).set("class", J::s(format!("{}/crash", prop))).set("message", J::s(format!("process killed by signal {}", sig))).set("replay", J::s(path.to_string_lossy())));
                }
            } else {
                // Alone, the run did not kill the process. If it ends with a violation of the property
                // instead (a fault raised by the simulator can turn into an abort only in a worker that has
                // other runs behind it, e.g. a second panic while unwinding), that violation is reported with
                // a replay file that accepts any violation class of the property; only if the run is clean
                // on its own is this a harness error.
                let path2 = root().join("replays").join(format!("{}-{}-{}-{}.json", prop, seed, run, if pr.xen { "xen" } else { "unix" }));
                let v = Violation { property: "", class: String::new(), fingerprint: format!("signal {} in the batch", sig), message: format!("worker killed by signal {} during this run of the batch; replayed alone the run ends with the violation printed by the replay", sig) };
                write_replay(&path2, if pr.xen { "xen" } else { "unix" }, prop, &pr.scenario, seed, *run, None, None, Some(&v), None, false, 0);
                let st2 = Command::new(exe).arg("replay").arg(&path2).stdin(Stdio::null()).stdout(Stdio::null()).status();
                if st2.as_ref().ok().and_then(|s| s.code()) == Some(1) {
                    let _ = std::fs::remove_file(&path);
                    if violation_lines.len() < 6 {
                        violation_lines.push(format!("VIOLATION property={} replay={}", prop, path2.to_string_lossy()));
                        viol_json.push(J::obj().set("run", J::i(*run)).set("class", J::s(format!("{}/crash", prop))).set("message", J::s(format!("worker killed by signal {} in the batch; alone the run ends with a violation of the property", sig))).set("replay", J::s(path2.to_string_lossy())));
                    }
                } else {
                    let _ = std::fs::remove_file(&path2);
                    harness_errors.push(format!("worker crash (signal {}) in run {} of {} did not reproduce", sig, run, pr.scenario));
                }
            }
        }
        for e in &pr.harness_errors {
            harness_errors.push(format!("{}: {}", pr.scenario, e));
        }
        if pr.det_mismatch > 0 {
            harness_errors.push(format!("{}: {} of {} determinism re-executions differed", pr.scenario, pr.det_mismatch, pr.det_pairs));
        }
        if check.needs_seam_events && pr.runs > 0 && pr.seam_events == 0 {
            harness_errors.push(format!("{}: no seam event in the whole batch (hooks not compiled in?)", pr.scenario));
        }
    }
    // replay files of violations that were not reported (duplicates of a reported class) go away
    let kept: BTreeSet<String> = violation_lines.iter().filter_map(|l| l.split("replay=").nth(1).map(|s| s.to_string())).collect();
    for (_, pr) in &parts {
        for f in &pr.found {
            for k in ["min", "orig"] {
                if let Some(p) = f.get(k).and_then(|v| v.as_str()) {
                    if !kept.contains(p) {
                        let _ = std::fs::remove_file(p);
                    }
                }
            }
        }
    }
    let mut known_seen: BTreeMap<String, u64> = BTreeMap::new();
    for (_, pr) in &parts {
        for (k, v) in &pr.known_seen {
            *known_seen.entry(k.clone()).or_insert(0) += v;
        }
    }
    for k in known_seen.keys() {
        println!("KNOWN-FINDING: property={} {}", prop, k);
    }

    // ----- evidence ---------------------------------------------------------------------------
    let evaluations: u64 = parts.iter().map(|(_, p)| p.runs).sum();
    let mut all_hashes: Vec<u64> = Vec::new();
    for (i, (_, p)) in parts.iter().enumerate() {
        // hashes of different scenarios are different cases even if they collide
        all_hashes.extend(p.hashes.iter().map(|h| h ^ ((i as u64) << 60)));
    }
    all_hashes.sort_unstable();
    all_hashes.dedup();
    let distinct = all_hashes.len() as u64;
    let wall = t0.elapsed().as_secs_f64();
    let mut counters: BTreeMap<String, u64> = BTreeMap::new();
    for (_, p) in &parts {
        for (k, v) in &p.counters {
            *counters.entry(k.clone()).or_insert(0) += v;
        }
    }
    let pick = |prefix: &str| -> J { J::Obj(counters.iter().filter(|(k, _)| k.starts_with(prefix)).map(|(k, v)| (k[prefix.len()..].to_string(), J::Int(*v as i128))).collect()) };
    let mut samples: Vec<J> = Vec::new();
    for (_, p) in &parts {
        samples.extend(p.samples.iter().take(2).cloned());
    }
    if samples.is_empty() {
        samples.push(J::s("no non-trivial run was sampled by worker 0"));
    }
    let mut cells = J::obj();
    for (_, p) in &parts {
        for (k, (n, s)) in &p.cells {
            cells.put(k, J::obj().set("runs", J::i(*n)).set("distinct", J::i(s.len())));
        }
    }
    let parts_j = J::Arr(
        parts
            .iter()
            .map(|(_, p)| {
                J::obj()
                    .set("scenario", J::s(&p.scenario))
                    .set("build", J::s(if p.xen { "xen" } else { "unix" }))
                    .set("runs", J::i(p.runs))
                    .set("runs_digest", J::s(format!("{:016x}", p.digest)))
                    .set("nontrivial_runs", J::i(p.nontrivial))
                    .set("discarded_runs", J::i(p.discarded))
                    .set("seam_events", J::i(p.seam_events))
                    .set("wall_s", J::Float(p.wall_s))
                    .set("runs_per_hour", J::i((p.runs as f64 / p.wall_s.max(0.001) * 3600.0) as u64))
            })
            .collect(),
    );
    let coverage = J::obj()
        .set("evaluations", J::i(evaluations))
        .set("distinct_nontrivial", J::i(distinct))
        .set("rule", J::s(format!("{}{}", check.rule, if parts.iter().any(|(_, p)| p.hashes_capped) { " (hash set capped per worker: the distinct count is a lower bound)" } else { "" })))
        .set("samples", J::Arr(samples))
        .set("parts", parts_j)
        .set("seeds", J::obj().set("base_seed", J::i(seed)).set("run_index_range", J::Arr(vec![J::Int(0), J::i(parts.iter().map(|(_, p)| p.runs).max().unwrap_or(0))])))
        .set("runs_per_hour", J::i((evaluations as f64 / wall.max(0.001) * 3600.0) as u64))
        .set("simulated_steps", J::i(parts.iter().map(|(_, p)| p.events).sum::<u64>()))
        .set("simulated_time", J::s("the crate has no clock or timer; simulated time is counted in scheduler steps and seam events (simulated_steps)"))
        .set("faults_fired", pick("fault."))
        .set("probes", pick("probe."))
        .set("other_counters", J::Obj(counters.iter().filter(|(k, _)| !k.starts_with("fault.") && !k.starts_with("probe.")).map(|(k, v)| (k.clone(), J::Int(*v as i128))).collect()))
        .set("coverage_cells", cells)
        .set("determinism_pairs_checked", J::i(parts.iter().map(|(_, p)| p.det_pairs).sum::<u64>()))
        .set("components", J::obj().set("real", J::strs(check.real.iter().copied())).set("stub", J::strs(check.stub.iter().copied())))
        .set("known_findings_seen", J::from_map(&known_seen))
        .set("violations_found", J::Arr(viol_json))
        .set("skipped_parts", J::strs(skipped_parts.clone()))
        .set("harness_errors", J::strs(harness_errors.clone()));
    let ev = J::obj()
        .set("property_id", J::s(prop))
        .set("tier", J::s(if thorough { "thorough" } else { "quick" }))
        .set("seed", J::i(seed))
        .set("level", J::s("exploration"))
        .set("coverage", coverage)
        .set("assumptions", J::strs(check.assumptions.iter().copied()))
        .set("wall_s", J::Float(wall))
        .set("violations", J::i(violation_lines.len()));
    let evp = root().join("evidence").join(format!("{}.json", prop));
    if let Ok(mut f) = std::fs::File::create(&evp) {
        let _ = f.write_all(ev.to_string_pretty().as_bytes());
    }
    println!(
        "{} {}: {} runs, {} distinct non-trivial, {:.1}s, {} violation(s), {} known finding(s)",
        prop,
        tier,
        evaluations,
        distinct,
        wall,
        violation_lines.len(),
        known_seen.len()
    );
    for l in &violation_lines {
        println!("{}", l);
    }
    if !violation_lines.is_empty() {
        return 1;
    }
    if !harness_errors.is_empty() {
        for e in &harness_errors {
            eprintln!("HARNESS-ERROR {}", e);
        }
        return 2;
    }
    if !skipped_parts.is_empty() {
        eprintln!("HARNESS-ERROR parts skipped (no xen binary given): {:?}", skipped_parts);
        return 2;
    }
    0
}
