#!/usr/bin/env python3
"""Markdown table of the kept seeded changes and the latest result of their property's quick check."""
import json, os
ROOT = os.path.dirname(os.path.dirname(os.path.abspath(__file__)))
rows = []; n = c = 0
def key(d):
    p, i = d.split("-"); return (p, int(i))
for d in sorted(os.listdir(os.path.join(ROOT, "seeded")), key=key):
    mp = os.path.join(ROOT, "seeded", d, "meta.json")
    if not os.path.exists(mp): continue
    m = json.load(open(mp)); r = m.get("check_result", {})
    title = open(os.path.join(ROOT, "seeded", d, "README.md")).read().strip().splitlines()[0].lstrip("# ").strip()
    title = title.replace("|", "/")[:120]
    n += 1
    ok = r.get("exit") == 1
    c += ok
    note = r.get("note", "")
    oth = r.get("other_checks", {})
    othc = [f"{k} check: " + ", ".join(v.get("violation_classes", [])) for k, v in oth.items() if v.get("exit") == 1]
    res = ("yes: " + ", ".join(r.get("violation_classes", []))) if ok else (("no; " + "; ".join(othc)) if othc else ("NO" if r else "not run"))
    c2 = globals().get("c2", 0) + (1 if (not ok and othc) else 0)
    rows.append(f"| {d} | {m['property']} | {title} | {res}{' — ' + note if note else ''} |")
print("| id | property | change (first line of its README) | caught by `./check <property> quick` |")
print("|---|---|---|---|")
print("\n".join(rows))
print(f"\n{c} of {n} caught by the check of their own property; {c2} more only by the check of the property that owns the mechanism (see the notes).")
