//! S-xen (xen build): pointer guards span their accessor; on-demand mappings cover every access
//! and are released afterwards (C17). The hypervisor device is emulated; a simulated MMU checks
//! every byte the library touches.

use super::{RunInfo, Scenario};
use crate::json::J;
use crate::sim::{catch, cx, in_mode, Mode, OpOutcome, SimPanic};
use crate::world::{bytes_of, mk, raw_read, ATOMIC_NAMES, ATOMIC_SIZES, TYPE_NAMES, TYPE_SIZES};
use crate::xendev::XenDev;
use crate::{with_atomic_type, with_type};
use std::sync::atomic::Ordering;
use vm_memory::bitmap::AtomicBitmap;
use vm_memory::{Bytes, FileOffset, GuestAddress, GuestMemoryRegion, GuestRegionMmap, MemoryRegionAddress, MmapRange, MmapRegion, MmapXenFlags, VolatileMemory};

#[derive(Clone, Copy, Debug, PartialEq, Eq)]
pub enum Kind {
    Unix,
    Foreign,
    GrantAdvance,
    GrantOnDemand,
}

pub struct XWorld {
    pub kind: Kind,
    pub base: u64,
    pub size: usize,
    /// tracked with the bitmap `from_range` builds (host page granularity)
    pub region: GuestRegionMmap<AtomicBitmap>,
    pub model: Vec<u8>,
}

pub fn pat(i: usize) -> u8 {
    (i as u8).wrapping_mul(29).wrapping_add(3)
}

pub fn xen_flags(kind: Kind) -> u32 {
    match kind {
        Kind::Unix => MmapXenFlags::UNIX.bits(),
        Kind::Foreign => MmapXenFlags::FOREIGN.bits(),
        Kind::GrantAdvance => MmapXenFlags::GRANT.bits(),
        Kind::GrantOnDemand => MmapXenFlags::GRANT.bits() | MmapXenFlags::NO_ADVANCE_MAP.bits(),
    }
}

pub fn build_region(kind: Kind, base: u64, size: usize) -> Result<GuestRegionMmap<AtomicBitmap>, String> {
    let file = match kind {
        Kind::Unix => None,
        _ => Some(FileOffset::new(cx().sys.xen.as_mut().unwrap().handle(), 0)),
    };
    let range = match kind {
        Kind::Unix => MmapRange::new_unix(size, None, GuestAddress(base)),
        _ => MmapRange::new(size, file, GuestAddress(base), xen_flags(kind), 7),
    };
    let r = MmapRegion::<AtomicBitmap>::from_range(range).map_err(|e| format!("{:?}", e))?;
    GuestRegionMmap::new(r, GuestAddress(base)).map_err(|e| format!("{:?}", e))
}

impl XWorld {
    pub fn new(kind: Kind) -> XWorld {
        let c = cx();
        let size = match c.a(6) {
            0 => 4096,
            1 => 8192,
            2 => 3 * 4096,
            3 => 4096 + 100,
            4 => 100 + c.a(300) as usize,
            _ => 1 + c.a(3 * 4096) as usize,
        };
        // rarely a region of a little more than 1 MiB (256 pages), for accesses that span hundreds of pages
        let size = if c.a(200) == 0 {
            c.count("probe.xen_region_of_more_than_256_pages");
            (257 + c.a(5) as usize) * 4096 + c.a(4096) as usize
        } else {
            size
        };
        let base = 0x1000 * (1 + c.a(64) as u64);
        c.sys.xen = Some(XenDev::new());
        c.sys.redzone = true;
        c.sys.mmu_on = true;
        if kind == Kind::GrantOnDemand {
            // an on-demand region hands out null-based "host addresses"
            c.sys.null_range = Some((0, size + 4096));
        }
        let model: Vec<u8> = (0..size).map(pat).collect();
        if kind != Kind::Unix {
            cx().sys.xen.as_ref().unwrap().pwrite(base, &model);
        }
        let region = in_mode(Mode::Setup, || build_region(kind, base, size)).expect("xen region");
        if kind == Kind::Unix {
            crate::world::raw_write(region.as_ptr(), &model);
        }
        XWorld { kind, base, size, region, model }
    }

    /// pages the region's bitmap reports dirty
    pub fn dirty_pages(&self) -> std::collections::BTreeSet<usize> {
        use vm_memory::GuestMemoryRegion;
        let b = self.region.bitmap();
        in_mode(Mode::Oracle, || (0..b.len() + 1).filter(|&i| b.is_bit_set(i)).collect())
    }

    /// guest bytes as the hypervisor side sees them (independent of the library)
    pub fn backing(&self) -> Vec<u8> {
        match self.kind {
            Kind::Unix => raw_read(self.region.as_ptr(), self.size),
            _ => cx().sys.xen.as_ref().unwrap().pread(self.base, self.size),
        }
    }
}

thread_local! {
    /// the second map request of the operation in progress is set to fail (nested form wanted)
    static NEST: std::cell::Cell<bool> = const { std::cell::Cell::new(false) };
}

pub struct Xen;
pub static XEN: Xen = Xen;


/// S-xen/concurrent: two threads use one on-demand grant region at the same time, each inside its
/// own half (different pages), switched at every map / unmap ioctl, mmap and munmap. Each access
/// must run inside a window over its own pages: data lands where the model says, reads return the
/// thread's own bytes, the simulated MMU sees no stray access, and nothing stays mapped or granted.
pub struct XenConc;
pub static XEN_CONC: XenConc = XenConc;

impl Scenario for XenConc {
    fn name(&self) -> &'static str {
        "S-xen/concurrent"
    }

    fn run(&self) -> RunInfo {
        use crate::sim::{run_concurrent, Policy};
        use std::cell::RefCell;
        cx().mode = Mode::Setup;
        cx().cfg.anon_atomics = true;
        let c = cx();
        let size = 4 * 4096usize;
        let base = 0x1000 * (1 + c.a(64) as u64);
        c.sys.xen = Some(XenDev::new());
        c.sys.redzone = true;
        c.sys.mmu_on = true;
        c.sys.null_range = Some((0, size + 4096));
        let model0: Vec<u8> = (0..size).map(pat).collect();
        cx().sys.xen.as_ref().unwrap().pwrite(base, &model0);
        let region = in_mode(Mode::Setup, || build_region(Kind::GrantOnDemand, base, size)).expect("xen region");
        let model = RefCell::new(model0);
        // programs: (write?, offset inside the half, length, object form?)
        let gen_prog = |half: usize| -> Vec<(bool, usize, usize, bool)> {
            (0..1 + cx().a(3))
                .map(|_| {
                    let obj = cx().a(3) == 0;
                    let n = if obj { 8 } else { 1 + cx().a(300) as usize };
                    let off = match cx().a(5) {
                        0 => 0,
                        1 => 4096 - n / 2 - 1,
                        2 => 8192 - n,
                        _ => cx().a((8192 - n) as u32) as usize,
                    };
                    (cx().a(3) != 0, half * 8192 + off, n, obj)
                })
                .collect()
        };
        let progs = [gen_prog(0), gen_prog(1)];
        {
            let c = cx();
            c.cfg.yield_sys = true;
            c.sched.budget = 20_000;
            c.sched.policy = match c.a(5) {
                0 => Policy::Uniform,
                1 => Policy::Sticky(1, 2),
                2 => Policy::Sticky(4, 5),
                3 => Policy::Pct(1),
                _ => Policy::Pct(2),
            };
        }
        let log = RefCell::new(Vec::<String>::new());
        let bad = RefCell::new(Vec::<(String, String, String)>::new());
        {
            let mut bodies: Vec<Box<dyn FnOnce() + '_>> = Vec::new();
            for (ai, prog) in progs.iter().enumerate() {
                let (region, model, log, bad) = (&region, &model, &log, &bad);
                bodies.push(Box::new(move || {
                    for (k, &(write, off, n, obj)) in prog.iter().enumerate() {
                        let at = MemoryRegionAddress(off as u64);
                        cx().op_begin((ai * 10 + k) as u64);
                        if write {
                            let data: Vec<u8> = (0..n).map(|i| pat(i + 17 * (ai + 1) + 5 * k) ^ 0xA5).collect();
                            let r = if obj { res(catch(|| region.write_obj(mk::<u64>(&data), at))).map(|r| r.map(|()| n)) } else { res(catch(|| region.write(&data, at))) };
                            let desc = format!("thread {}: {}(len {}, {})", ai, if obj { "write_obj::<u64>" } else { "write" }, n, off);
                            match r {
                                Ok(Ok(m)) if m == n => model.borrow_mut()[off..off + n].copy_from_slice(&data),
                                other => bad.borrow_mut().push(("C17/result".into(), format!("{} in its own half", if obj { "write_obj" } else { "write" }), format!("{} returned {:?}", desc, other.map(|x| x.map_err(|e| format!("{:?}", e)))))),
                            }
                            log.borrow_mut().push(desc);
                        } else {
                            let mut buf = vec![0u8; n];
                            let r = if obj { res(catch(|| region.read_obj::<u64>(at))).map(|r| r.map(|v| { buf.copy_from_slice(&bytes_of(&v)); n })) } else { res(catch(|| region.read(&mut buf, at))) };
                            let desc = format!("thread {}: {}(len {}, {})", ai, if obj { "read_obj::<u64>" } else { "read" }, n, off);
                            let want = model.borrow()[off..off + n].to_vec();
                            match r {
                                Ok(Ok(m)) if m == n && buf == want => {}
                                Ok(Ok(m)) if m == n => bad.borrow_mut().push(("C17/data".into(), "a thread read bytes that are not its own".into(), format!("{} returned bytes that differ from what this thread's half of the guest memory holds (first difference at +{})", desc, buf.iter().zip(want.iter()).position(|(a, b)| a != b).unwrap_or(0)))),
                                other => bad.borrow_mut().push(("C17/result".into(), format!("{} in its own half", if obj { "read_obj" } else { "read" }), format!("{} returned {:?}", desc, other.map(|x| x.map_err(|e| format!("{:?}", e)))))),
                            }
                            log.borrow_mut().push(desc);
                        }
                        cx().op_end((ai * 10 + k) as u64, 0);
                    }
                }));
            }
            run_concurrent(bodies);
        }
        cx().mode = Mode::Setup;
        cx().cfg.yield_sys = false;
        let c = cx();
        c.count_n("sim.steps", c.sched.steps);
        let inop = c.sched.inop_switches;
        let line = format!("GrantOnDemand region [{:#x},+{}) used by two threads: {}", base, size, log.borrow().join(" | "));
        for (class, fp, msg) in bad.borrow().iter() {
            cx().violate("C17", class, fp.clone(), format!("{}: {}", line, msg));
        }
        let faults = std::mem::take(&mut cx().sys.mmu_faults);
        if let Some(f) = faults.first() {
            cx().violate("C17", "C17/mmu", "access outside its temporary mapping with two threads on one region".into(), format!("{}: {}", line, f));
        }
        let backing = cx().sys.xen.as_ref().unwrap().pread(base, size);
        if cx().violations.is_empty() && backing != *model.borrow() {
            let i = backing.iter().zip(model.borrow().iter()).position(|(x, y)| x != y).unwrap_or(0);
            cx().violate("C17", "C17/data", "guest bytes with two threads on one region".into(), format!("{}: guest byte {} is {:#04x}, expected {:#04x} (an access ran inside a window over other pages)", line, i, backing[i], model.borrow()[i]));
        }
        let (grants, windows) = (cx().sys.xen.as_ref().unwrap().live_grants(), cx().sys.live_count());
        if cx().violations.is_empty() && (!grants.is_empty() || windows != 0) {
            cx().violate("C17", "C17/window-leak", "mapping or grant left with two threads on one region".into(), format!("{}: {} mapping(s) live, grants {:x?}", line, windows, grants));
        }
        cx().mode = Mode::Actor;
        let r = catch(|| drop(region));
        cx().mode = Mode::Setup;
        if let OpOutcome::Panic(m) = r {
            cx().violate("C17", "C17/panic", "panic dropping the region".into(), m);
        }
        cx().sys.anomalies.clear();
        let desc = if cx().trace { Some(J::obj().set("region", J::s("GrantOnDemand, two threads")).set("history", J::strs(log.borrow().clone())).set("device_log", J::strs(cx().sys.xen.as_ref().unwrap().log.iter().take(40).cloned()))) } else { None };
        cx().sys.xen = None;
        cx().mode = Mode::Oracle;
        RunInfo { nontrivial: inop > 0, desc, cell: None }
    }
}

fn gen_off(size: usize) -> usize {
    let c = cx();
    match c.a(8) {
        0 => 0,
        1 => 4096usize.min(size - 1),
        2 => 4095usize.min(size - 1),
        3 => size - 1,
        4 => (4096usize.saturating_sub(1 + c.a(16) as usize)).min(size - 1),
        _ => c.a(size as u32) as usize,
    }
}

impl Scenario for Xen {
    fn name(&self) -> &'static str {
        "S-xen"
    }

    fn run(&self) -> RunInfo {
        cx().mode = Mode::Setup;
        cx().cfg.anon_atomics = true;
        let kind = [Kind::GrantOnDemand, Kind::GrantOnDemand, Kind::GrantAdvance, Kind::Foreign, Kind::Unix][cx().a(5) as usize];
        let mut w = XWorld::new(kind);
        let nops = 1 + cx().a(10) as usize;
        let mut unmap_ever = false;
        let mut log: Vec<String> = Vec::new();
        let base_windows = cx().sys.live_count();
        let base_grants = cx().sys.xen.as_ref().unwrap().live_grants();
        let mut injected_any = false;
        for step in 0..nops {
            if !cx().violations.is_empty() {
                break;
            }
            // now and then make the next map request (ioctl or mmap) fail
            let inject = kind == Kind::GrantOnDemand && cx().a(12) == 0;
            // the release of a temporary mapping can fail too (the driver refuses the unmap ioctl): the
            // library then panics in the middle of tearing the window down; what it already wrote must be
            // accounted for, and nothing may be unmapped twice. The device keeps the grant, so the run
            // ends after this operation and the device-state oracles are not applied to it.
            let inject_unmap = kind == Kind::GrantOnDemand && !inject && cx().a(16) == 0;
            let mut nest_second_fails = false;
            if inject {
                injected_any = true;
                match cx().a(3) {
                    0 => {
                        let k = cx().sys.xen.as_ref().unwrap().map_calls;
                        cx().sys.xen.as_mut().unwrap().fail_map_at = Some(k);
                    }
                    1 => cx().sys.fail_mmap_at = Some((cx().sys.mmap_calls, libc::ENOMEM)),
                    _ => {
                        // the *second* map request of the operation fails: only operations that hold one
                        // window while making another reach it (see the nested form of `one_op`)
                        let k = cx().sys.xen.as_ref().unwrap().map_calls + 1;
                        cx().sys.xen.as_mut().unwrap().fail_map_at = Some(k);
                        nest_second_fails = true;
                    }
                }
            }
            if inject_unmap {
                injected_any = true;
                cx().sys.xen.as_mut().unwrap().fail_next_unmap = true;
            }
            NEST.with(|n| n.set(nest_second_fails));
            cx().sys.mmu_faults.clear();
            let (dirty_before, bytes_before) = (w.dirty_pages(), w.backing());
            cx().mode = Mode::Actor;
            cx().op_begin(step as u64);
            let (desc, kname, outcome) = one_op(&mut w);
            cx().op_end(step as u64, 0);
            cx().mode = Mode::Setup;
            cx().sys.fail_mmap_at = None;
            cx().sys.xen.as_mut().unwrap().fail_map_at = None;
            let unmap_struck = cx().sys.xen.as_ref().unwrap().unmap_failed > 0;
            cx().sys.xen.as_mut().unwrap().fail_next_unmap = false;
            NEST.with(|n| n.set(false));
            log.push(format!("{}{}{}", desc, if inject { if nest_second_fails { " [second map request of the operation made to fail]" } else { " [next map request made to fail]" } } else { "" }, if unmap_struck { " [the unmap ioctl was made to fail]" } else { "" }));
            let line = format!("{:?} region [{:#x},+{}) step {} {}", kind, w.base, w.size, step, log.last().unwrap());
            let fp = |what: &str| format!("{} {:?} {}", what, kind, kname);
            // (2) simulated MMU
            let faults = std::mem::take(&mut cx().sys.mmu_faults);
            if let Some(f) = faults.first() {
                let why = if f.contains("null-based") { "access through the unmapped null-based address" } else if f.contains("already been released") { "access to a released temporary mapping" } else { "access past the end of its temporary mapping" };
                cx().violate("C17", "C17/mmu", fp(why), format!("{}: {}", line, f));
                if f.contains("already been released") {
                    // the library itself kept using an address after unmapping what was behind it
                    cx().violate("C12", "C12/use-after-unmap", fp("access to a mapping the library has already unmapped"), format!("{}: {}", line, f));
                }
            }
            match &outcome {
                Err(m) if !inject && !unmap_struck && faults.is_empty() => cx().violate("C17", "C17/panic", fp("panic"), format!("{}: {}", line, m)),
                Err(_) if unmap_struck => cx().count("probe.panic_after_injected_unmap_failure"),
                Err(_) if inject => cx().count("probe.panic_after_injected_map_failure"),
                _ => {}
            }
            // (3)/(4) nothing stays mapped or granted
            let dev = cx().sys.xen.as_ref().unwrap();
            let grants = dev.live_grants();
            let windows = cx().sys.live_count();
            if grants != base_grants && !unmap_struck {
                cx().violate("C17", "C17/grant-leak", fp(if inject { "grant left after a failed map request" } else { "grant left after an access" }), format!("{}: live grants are {:x?}, before the access they were {:x?}", line, grants, base_grants));
            }
            if windows != base_windows {
                cx().violate("C17", "C17/window-leak", fp("temporary mapping left after an access"), format!("{}: {} mapping(s) are live, before the access there were {}", line, windows, base_windows));
                if windows < base_windows {
                    cx().violate("C12", "C12/early-unmap", format!("{:?} region's own mapping unmapped by an access", kind), format!("{}: the region is alive but its mapping is gone ({} live mapping(s), {} before the access)", line, windows, base_windows));
                }
            }
            for a in cx().sys.xen.as_mut().unwrap().anomalies.drain(..).collect::<Vec<_>>() {
                cx().violate("C17", "C17/device", fp("device protocol"), format!("{}: {}", line, a));
            }
            for a in std::mem::take(&mut cx().sys.anomalies) {
                cx().violate("C17", "C17/device", fp("address space"), format!("{}: {}", line, a));
                if a.contains("second munmap") || a.contains("never mapped") || a.contains("length") {
                    cx().violate("C12", if a.contains("second munmap") { "C12/double-unmap" } else if a.contains("length") { "C12/wrong-length" } else { "C12/foreign-munmap" }, format!("{:?} region: {}", kind, a.split(" #").next().unwrap_or("")), format!("{}: {}", line, a));
                }
            }
            // dirty tracking on Xen regions: every changed byte is reported (C05); an access that failed
            // before it wrote anything - e.g. because its temporary mapping could not be made - marks nothing (C16)
            {
                let (dirty_after, bytes_after) = (w.dirty_pages(), w.backing());
                let changed: std::collections::BTreeSet<usize> = (0..w.size).filter(|&i| bytes_after[i] != bytes_before[i]).map(|i| i / 4096).collect();
                if let Some(p) = changed.iter().find(|p| !dirty_after.contains(p)) {
                    cx().violate("C05", "C05/unmarked-write", format!("{:?} {} left a changed byte clean", kind, kname), format!("{}: a byte of page {} changed but the region's bitmap reports the page clean", line, p));
                }
                // (only an injected *map* failure is known to strike before anything was written)
                if changed.is_empty() && outcome.is_err() && inject && !unmap_struck && dirty_after != dirty_before {
                    cx().violate("C16", "C16/extra-mark", format!("{:?} {} marked although it wrote nothing", kind, kname), format!("{}: the access failed without changing a guest byte, but pages {:?} became dirty", line, dirty_after.difference(&dirty_before).collect::<Vec<_>>()));
                }
                if dirty_after != dirty_before {
                    // harvested now and then, like a migration thread would
                    if cx().a(4) == 0 {
                        use vm_memory::GuestMemoryRegion;
                        in_mode(Mode::Setup, || w.region.bitmap().reset());
                    }
                }
            }
            // data: the guest's memory is what the model says
            if !inject && outcome.is_ok() && w.backing() != w.model {
                let b = w.backing();
                let i = b.iter().zip(w.model.iter()).position(|(x, y)| x != y).unwrap_or(0);
                cx().violate("C17", "C17/data", fp("guest bytes"), format!("{}: guest byte {} is {:#04x}, expected {:#04x}", line, i, b[i], w.model[i]));
            }
            if inject || outcome.is_err() {
                // the model cannot know how far a failed access got
                w.model = w.backing();
            }
            if unmap_struck {
                // the device kept a grant the library could not give back: nothing further can be judged
                unmap_ever = true;
                break;
            }
        }
        // region drop releases the advance mapping exactly once
        let kind_s = format!("{:?}", kind);
        // a pointer guard has no lifetime: now and then one is still held when the region (the whole
        // memory object) goes away, and is released afterwards; its temporary mapping must survive
        // until then and be released then
        let held = if kind == Kind::GrantOnDemand && cx().violations.is_empty() && !unmap_ever && cx().a(3) == 0 {
            let off = gen_off(w.size).min(w.size - 1);
            let n = 1 + cx().a((w.size - off).min(5000) as u32) as usize;
            cx().mode = Mode::Actor;
            let g = catch(|| w.region.get_slice(MemoryRegionAddress(off as u64), n).map(|s| s.ptr_guard()));
            cx().mode = Mode::Setup;
            match g {
                OpOutcome::Ok(Ok(g)) => {
                    log.push(format!("hold the pointer guard of get_slice({}, {}) across the drop of the region", off, n));
                    cx().count("probe.pointer_guard_outlives_its_region");
                    Some((g, off, n))
                }
                _ => None,
            }
        } else {
            None
        };
        let XWorld { region, .. } = w;
        cx().mode = Mode::Actor;
        let r = catch(|| drop(region));
        cx().mode = Mode::Setup;
        if let OpOutcome::Panic(m) = r {
            cx().violate("C17", "C17/panic", format!("panic dropping a {} region", kind_s), m);
        }
        if let Some((g, off, n)) = held {
            // the guard still covers its bytes
            if cx().violations.is_empty() {
                if let Some(why) = cx().sys.mmu_violation(g.as_ptr() as usize, n) {
                    cx().violate("C17", "C17/mmu", format!("pointer guard outliving its region {:?}", kind), format!("the pointer guard of get_slice({}, {}) is still held after the region was dropped, but its bytes are not mapped: {}", off, n, why));
                }
            }
            cx().mode = Mode::Actor;
            let r = catch(move || drop(g));
            cx().mode = Mode::Setup;
            if let OpOutcome::Panic(m) = r {
                cx().violate("C17", "C17/panic", format!("panic releasing a pointer guard after its {} region", kind_s), m);
            }
        }
        if cx().violations.is_empty() && !unmap_ever {
            let dev = cx().sys.xen.as_ref().unwrap();
            if cx().sys.live_count() != 0 || cx().sys.anomalies.iter().any(|a| a.contains("munmap")) {
                cx().violate("C12", if cx().sys.live_count() != 0 { "C12/leak" } else { "C12/double-unmap" }, format!("{} region drop", kind_s), format!("after dropping the region: {} live mapping(s), anomalies {:?}", cx().sys.live_count(), cx().sys.anomalies));
            }
            if !dev.live_grants().is_empty() || cx().sys.live_count() != 0 || !cx().sys.anomalies.is_empty() || !dev.anomalies.is_empty() {
                cx().violate("C17", "C17/drop", format!("{} region drop", kind_s), format!("after dropping the region: live grants {:x?}, live mappings {}, anomalies {:?} {:?}", dev.live_grants(), cx().sys.live_count(), cx().sys.anomalies, dev.anomalies));
            }
        }
        let desc = if cx().trace { Some(J::obj().set("region", J::s(format!("{} (xen flags {:#x})", kind_s, xen_flags(kind)))).set("history", J::strs(log.clone())).set("device_log", J::strs(cx().sys.xen.as_ref().unwrap().log.iter().take(40).cloned()))) } else { None };
        cx().sys.xen = None;
        cx().mode = Mode::Oracle;
        RunInfo { nontrivial: kind != Kind::Unix && (nops > 1 || injected_any), desc, cell: None }
    }
}

fn res<T>(o: OpOutcome<T>) -> Result<T, String> {
    match o {
        OpOutcome::Ok(v) => Ok(v),
        OpOutcome::Panic(m) => Err(m),
        OpOutcome::Sim(SimPanic::Fault { why, .. }) => Err(format!("simulated fault: {}", why)),
        OpOutcome::Sim(s) => Err(format!("{:?}", s)),
    }
}

/// short and interrupted descriptor calls for the File operations (half of the time none)
fn gen_io_script() -> Vec<crate::sys::IoVerdict> {
    use crate::sys::IoVerdict;
    if cx().a(2) == 0 {
        return Vec::new();
    }
    (0..1 + cx().a(3)).map(|_| if cx().a(3) == 0 { IoVerdict::Errno(libc::EINTR) } else { IoVerdict::Shorten(1 + cx().a(40) as usize) }).collect()
}

/// one access operation; returns (description, kind name, Ok / Err(panic message))
fn one_op(w: &mut XWorld) -> (String, &'static str, Result<(), String>) {
    let size = w.size;
    let off = gen_off(size);
    let room = size - off;
    let stamp = cx().a(200) as usize;
    let newb = |i: usize| pat(i + 31 * (stamp + 1)) ^ 0x55;
    let k = cx().a(16);
    let at = MemoryRegionAddress(off as u64);
    if NEST.with(|n| n.get()) {
        // one window is held (a pointer guard) while a second access asks for another one, which
        // fails: the held window is released while the panic unwinds, and must be released fully
        let n = 1 + cx().a(room.min(64) as u32) as usize;
        let data: Vec<u8> = (0..n).map(newb).collect();
        let r = res(catch(|| {
            let s = w.region.get_slice(at, n)?;
            let g = s.ptr_guard();
            let r = w.region.write(&data, at);
            drop(g);
            r
        }));
        let ok = match &r {
            Ok(Ok(m)) if *m == n => Ok(()),
            Ok(x) => Err(format!("returned {:?}", x.as_ref().map_err(|e| format!("{:?}", e)))),
            Err(m) => Err(m.clone()),
        };
        if ok.is_ok() {
            w.model[off..off + n].copy_from_slice(&data);
        }
        return (format!("write(buf[{}], {}) while the pointer guard of get_slice({}, {}) is held", n, off, off, n), "write under a held guard", ok);
    }
    match k {
        0 => {
            let n = if size > 256 * 4096 && cx().a(2) == 0 { room } else { 1 + cx().a(room.min(6000) as u32) as usize };
            let data: Vec<u8> = (0..n).map(newb).collect();
            let r = res(catch(|| w.region.write(&data, at)));
            let ok = match &r {
                Ok(Ok(m)) if *m == n => Ok(()),
                Ok(x) => Err(format!("returned {:?}", x.as_ref().map_err(|e| format!("{:?}", e)))),
                Err(m) => Err(m.clone()),
            };
            if ok.is_ok() {
                w.model[off..off + n].copy_from_slice(&data);
            }
            (format!("write(buf[{}], {})", n, off), "write", ok)
        }
        1 => {
            let n = if size > 256 * 4096 && cx().a(2) == 0 { room } else { 1 + cx().a(room.min(6000) as u32) as usize };
            let mut buf = vec![0u8; n];
            let r = res(catch(|| w.region.read(&mut buf, at)));
            let ok = match &r {
                Ok(Ok(m)) if *m == n && buf[..] == w.model[off..off + n] => Ok(()),
                Ok(x) => Err(format!("returned {:?} / wrong data", x.as_ref().map_err(|e| format!("{:?}", e)))),
                Err(m) => Err(m.clone()),
            };
            (format!("read(buf[{}], {})", n, off), "read", ok)
        }
        2 | 3 => {
            let ti = cx().a(20) as usize;
            let sz = TYPE_SIZES[ti];
            if sz > room {
                return (format!("object of {} bytes does not fit at {}", sz, off), "skip", Ok(()));
            }
            if k == 2 {
                let data: Vec<u8> = (0..sz).map(newb).collect();
                let r = res(catch(|| with_type!(ti, T => w.region.write_obj::<T>(mk::<T>(&data), at).map_err(|e| format!("{:?}", e)))));
                let ok = r.and_then(|x| x);
                if ok.is_ok() {
                    w.model[off..off + sz].copy_from_slice(&data);
                }
                (format!("write_obj::<{}>({})", TYPE_NAMES[ti], off), "write_obj", ok)
            } else {
                let r = res(catch(|| with_type!(ti, T => w.region.read_obj::<T>(at).map(|v| bytes_of(&v)).map_err(|e| format!("{:?}", e)))));
                let ok = r.and_then(|x| x).and_then(|b| if b[..] == w.model[off..off + sz] { Ok(()) } else { Err("wrong data".into()) });
                (format!("read_obj::<{}>({})", TYPE_NAMES[ti], off), "read_obj", ok)
            }
        }
        4 | 5 => {
            let ti = cx().a(20) as usize;
            let sz = TYPE_SIZES[ti];
            if sz > room {
                return ("skip".into(), "skip", Ok(()));
            }
            let data: Vec<u8> = (0..sz).map(newb).collect();
            let store = k == 4;
            let r = res(catch(|| {
                with_type!(ti, T => {
                    let s = w.region.get_slice(at, sz).map_err(|e| format!("{:?}", e))?;
                    let r = s.get_ref::<T>(0).map_err(|e| format!("{:?}", e))?;
                    if store { r.store(mk::<T>(&data)); Ok(vec![]) } else { Ok(bytes_of(&r.load())) }
                })
            }));
            let ok = r.and_then(|x: Result<Vec<u8>, String>| x).and_then(|b| if store || b[..] == w.model[off..off + sz] { Ok(()) } else { Err("wrong data".into()) });
            if store && ok.is_ok() {
                w.model[off..off + sz].copy_from_slice(&data);
            }
            (format!("get_slice({}, {}).get_ref::<{}>(0).{}", off, sz, TYPE_NAMES[ti], if store { "store" } else { "load" }), if store { "ref.store" } else { "ref.load" }, ok)
        }
        6 | 7 => {
            let ti = cx().a(20) as usize;
            let sz = TYPE_SIZES[ti];
            let maxn = room / sz;
            if maxn == 0 {
                return ("skip".into(), "skip", Ok(()));
            }
            let n = 1 + cx().a(maxn.min(700) as u32) as usize;
            let from = k == 6;
            let data: Vec<u8> = (0..n * sz).map(newb).collect();
            let r = res(catch(|| {
                with_type!(ti, T => {
                    let s = w.region.get_slice(at, n * sz).map_err(|e| format!("{:?}", e))?;
                    let a = s.get_array_ref::<T>(0, n).map_err(|e| format!("{:?}", e))?;
                    if from {
                        let elems: Vec<T> = (0..n).map(|e| mk::<T>(&data[e * sz..])).collect();
                        a.copy_from(&elems);
                        Ok(vec![])
                    } else {
                        let mut elems: Vec<T> = (0..n).map(|_| mk::<T>(&[0u8; 32])).collect();
                        let c = a.copy_to(&mut elems);
                        if c != n { return Err(format!("copy_to returned {}", c)); }
                        let mut out = Vec::new();
                        for e in &elems { out.extend_from_slice(&bytes_of(e)); }
                        Ok(out)
                    }
                })
            }));
            let ok = r.and_then(|x: Result<Vec<u8>, String>| x).and_then(|b| if from || b[..] == w.model[off..off + n * sz] { Ok(()) } else { Err("wrong data".into()) });
            if from && ok.is_ok() {
                w.model[off..off + n * sz].copy_from_slice(&data);
            }
            (format!("get_slice({}, {}).get_array_ref::<{}>(0, {}).{}", off, n * sz, TYPE_NAMES[ti], n, if from { "copy_from" } else { "copy_to" }), if from { "array.copy_from" } else { "array.copy_to" }, ok)
        }
        8 | 9 => {
            let ti = cx().a(10) as usize;
            let sz = ATOMIC_SIZES[ti];
            let off = off & !(sz - 1);
            if off + sz > size {
                return ("skip".into(), "skip", Ok(()));
            }
            let at = MemoryRegionAddress(off as u64);
            let data: Vec<u8> = (0..sz).map(newb).collect();
            let store = k == 8;
            let r = res(catch(|| {
                with_atomic_type!(ti, T => {
                    if store { w.region.store::<T>(mk::<T>(&data), at, Ordering::SeqCst).map(|()| vec![]).map_err(|e| format!("{:?}", e)) }
                    else { w.region.load::<T>(at, Ordering::SeqCst).map(|v| bytes_of(&v)).map_err(|e| format!("{:?}", e)) }
                })
            }));
            let ok = r.and_then(|x| x).and_then(|b| if store || b[..] == w.model[off..off + sz] { Ok(()) } else { Err("wrong data".into()) });
            if store && ok.is_ok() {
                w.model[off..off + sz].copy_from_slice(&data);
            }
            (format!("{}::<{}>({})", if store { "store" } else { "load" }, ATOMIC_NAMES[ti], off), if store { "atomic store" } else { "atomic load" }, ok)
        }
        10 => {
            let n = 1 + cx().a(room.min(300) as u32) as usize;
            let doff = cx().a((size - n + 1) as u32) as usize;
            let via_array = cx().a(3) == 0;
            let r = res(catch(|| -> Result<(), String> {
                let s = w.region.get_slice(at, n).map_err(|e| format!("{:?}", e))?;
                let d = w.region.get_slice(MemoryRegionAddress(doff as u64), n).map_err(|e| format!("{:?}", e))?;
                if via_array {
                    s.get_array_ref::<u8>(0, n).map_err(|e| format!("{:?}", e))?.copy_to_volatile_slice(d);
                } else {
                    s.copy_to_volatile_slice(d);
                }
                Ok(())
            }));
            let ok = r.and_then(|x| x);
            if ok.is_ok() {
                let src = w.model[off..off + n].to_vec();
                w.model[doff..doff + n].copy_from_slice(&src);
            }
            (format!("get_slice({}, {}){}.copy_to_volatile_slice(get_slice({}, {}))", off, n, if via_array { ".get_array_ref::<u8>(0, n)" } else { "" }, doff, n), if via_array { "element-array-to-slice copy" } else { "slice-to-slice copy" }, ok)
        }
        11 => {
            let n = 1 + cx().a(room.min(5000) as u32) as usize;
            let data: Vec<u8> = (0..n).map(newb).collect();
            let mut src = &data[..];
            let r = res(catch(|| w.region.read_exact_volatile_from(at, &mut src, n).map_err(|e| format!("{:?}", e))));
            let ok = r.and_then(|x| x);
            if ok.is_ok() {
                w.model[off..off + n].copy_from_slice(&data);
            }
            (format!("read_exact_volatile_from({}, &[u8], {})", off, n), "read_exact_volatile_from", ok)
        }
        12 => {
            let n = 1 + cx().a(room.min(5000) as u32) as usize;
            let mut sink: Vec<u8> = Vec::new();
            let r = res(catch(|| w.region.write_all_volatile_to(at, &mut sink, n).map_err(|e| format!("{:?}", e))));
            let ok = r.and_then(|x| x).and_then(|()| if sink[..] == w.model[off..off + n] { Ok(()) } else { Err("wrong data in the sink".into()) });
            (format!("write_all_volatile_to({}, Vec, {})", off, n), "write_all_volatile_to", ok)
        }
        13 => {
            // pointer guards: length = bytes covered, pointer = first byte
            let ti = cx().a(20) as usize;
            let sz = TYPE_SIZES[ti];
            let maxn = room / sz;
            if maxn == 0 {
                return ("skip".into(), "skip", Ok(()));
            }
            let n = 1 + cx().a(maxn.min(300) as u32) as usize;
            let which = cx().a(3);
            let model = w.model.clone();
            let unix_base = if w.kind != Kind::GrantOnDemand { Some(w.region.as_ptr() as usize) } else { None };
            let r = res(catch(|| -> Result<(), String> {
                with_type!(ti, T => {
                    let s = w.region.get_slice(at, n * sz).map_err(|e| format!("{:?}", e))?;
                    let (len, ptr, want, what) = match which {
                        0 => { let g = s.ptr_guard(); (g.len(), raw_read(g.as_ptr(), (n * sz).min(64).min(g.len())), n * sz, "slice") }
                        1 => { let r = s.get_ref::<T>(0).map_err(|e| format!("{:?}", e))?; let g = r.ptr_guard_mut(); (g.len(), raw_read(g.as_ptr(), sz.min(64).min(g.len())), sz, "typed reference") }
                        _ => { let a = s.get_array_ref::<T>(0, n).map_err(|e| format!("{:?}", e))?; let g = a.ptr_guard(); (g.len(), raw_read(g.as_ptr(), (n * sz).min(64).min(g.len())), n * sz, "element array") }
                    };
                    if len != want {
                        cx().violate("C17", "C17/guard-len", format!("pointer guard length of a {}", what), format!("the pointer guard of a {} of {} covering {} byte(s) reports len() = {}", what, TYPE_NAMES[ti], want, len));
                    }
                    if ptr[..] != model[off..off + ptr.len()] {
                        cx().violate("C17", "C17/guard-ptr", format!("pointer guard address of a {}", what), format!("the pointer guard of a {} at offset {} does not point at the accessor's first byte", what, off));
                    }
                    if let Some(b) = unix_base {
                        let g = s.ptr_guard();
                        if g.as_ptr() as usize != b + off {
                            cx().violate("C17", "C17/guard-ptr", "pointer guard address".into(), format!("guard pointer is not region base + {}", off));
                        }
                    }
                    Ok(())
                })
            }));
            (format!("pointer guard of {} over {} x {} at {}", ["a slice", "a typed reference", "an element array"][which as usize], n, TYPE_NAMES[ti], off), "ptr_guard", r.and_then(|x| x))
        }
        14 if cx().a(2) == 0 => {
            // a pointer guard is held while a second, usually longer access in the same direction
            // starts at the same byte: each of the two needs a mapping that covers its own bytes,
            // and the held one must stay mapped until it is dropped
            let n1 = 1 + cx().a(room.min(64) as u32) as usize;
            let n2 = 1 + cx().a(room.min(6000) as u32) as usize;
            let wr = cx().a(2) == 0;
            let data: Vec<u8> = (0..n2).map(newb).collect();
            let mut buf = vec![0u8; n2];
            let r = res(catch(|| -> Result<usize, String> {
                let s = w.region.get_slice(at, n1).map_err(|e| format!("{:?}", e))?;
                let (gp, g_c, g_m) = if wr {
                    let g = s.ptr_guard_mut();
                    (g.as_ptr() as usize, None, Some(g))
                } else {
                    let g = s.ptr_guard();
                    (g.as_ptr() as usize, Some(g), None)
                };
                let r = if wr { w.region.write(&data, at) } else { w.region.read(&mut buf, at) }.map_err(|e| format!("{:?}", e));
                if cx().sys.xen.as_ref().map(|x| x.unmap_failed == 0).unwrap_or(true) {
                    if let Some(why) = cx().sys.mmu_violation(gp, n1) {
                        cx().sys.mmu_faults.push(format!("the bytes of the pointer guard of get_slice({}, {}) that is still held are not mapped after another access completed: {}", off, n1, why));
                    }
                }
                drop((g_c, g_m));
                r
            }));
            let ok = match &r {
                Ok(Ok(m)) if *m == n2 && (wr || buf[..] == w.model[off..off + n2]) => Ok(()),
                Ok(x) => Err(format!("returned {:?}{}", x, if wr { "" } else { " / wrong data" })),
                Err(m) => Err(m.clone()),
            };
            if ok.is_ok() && wr {
                w.model[off..off + n2].copy_from_slice(&data);
            }
            (format!("{}(buf[{}], {}) while the {} pointer guard of get_slice({}, {}) is held", if wr { "write" } else { "read" }, n2, off, if wr { "mutable" } else { "shared" }, off, n1), "access under a held guard", ok)
        }
        15 => {
            // the region's bytes written straight to a descriptor (the syscall buffer must stay mapped during write(2))
            let n = 1 + cx().a(room.min(5000) as u32) as usize;
            let mut f = crate::gmworld::memfd(0);
            use std::os::fd::AsRawFd;
            // now and then write(2) accepts only part of what it is offered, or is interrupted
            let script = gen_io_script();
            cx().sys.io_script = script.iter().copied().collect();
            let r = res(catch(|| w.region.write_all_volatile_to(at, &mut f, n).map_err(|e| format!("{:?}", e))));
            cx().sys.io_script.clear();
            let ok = r.and_then(|x| x).and_then(|()| {
                let mut got = vec![0u8; n];
                // SAFETY: pread into our own buffer.
                let k = unsafe { libc::pread(f.as_raw_fd(), got.as_mut_ptr() as *mut libc::c_void, n, 0) };
                if k == n as isize && got[..] == w.model[off..off + n] { Ok(()) } else { Err("the descriptor received wrong bytes".into()) }
            });
            (format!("write_all_volatile_to({}, File, {}) syscall outcomes {:?}", off, n, script), "write_all_volatile_to(File)", ok)
        }
        _ => {
            // descriptor read straight into the region (the syscall buffer must be mapped)
            let n = 1 + cx().a(room.min(5000) as u32) as usize;
            let data: Vec<u8> = (0..n).map(newb).collect();
            let mut f = crate::gmworld::memfd(0);
            use std::os::fd::AsRawFd;
            // SAFETY: our own descriptor and buffer.
            unsafe {
                libc::write(f.as_raw_fd(), data.as_ptr() as *const libc::c_void, n);
                // (the file holds more than is asked for: a read that asks for too much gets it)
                libc::write(f.as_raw_fd(), [0x77u8; 64].as_ptr() as *const libc::c_void, 64);
                libc::lseek(f.as_raw_fd(), 0, libc::SEEK_SET);
            }
            // now and then read(2) delivers less than it is asked for, or is interrupted
            let script = gen_io_script();
            cx().sys.io_script = script.iter().copied().collect();
            let r = res(catch(|| w.region.read_exact_volatile_from(at, &mut f, n).map_err(|e| format!("{:?}", e))));
            cx().sys.io_script.clear();
            let ok = r.and_then(|x| x);
            if ok.is_ok() {
                w.model[off..off + n].copy_from_slice(&data);
            }
            (format!("read_exact_volatile_from({}, File, {}) syscall outcomes {:?}", off, n, script), "read_exact_volatile_from(File)", ok)
        }
    }
}
