//! Guest-memory worlds: layouts of mmap regions with a flat sparse byte-array model.

use crate::sim::{cx, in_mode, Mode};
use crate::world::{raw_read, raw_write};
use std::fs::File;
use std::os::fd::{AsRawFd, FromRawFd};
use vm_memory::bitmap::{Bitmap, NewBitmap};
use vm_memory::{FileOffset, GuestAddress, GuestMemory, GuestMemoryMmap, GuestMemoryRegion, GuestRegionMmap, MemoryRegionAddress};

#[derive(Clone, Debug)]
pub struct RegSpec {
    pub base: u64,
    pub size: usize,
    /// backed by a shared memfd at this file offset
    pub file_off: Option<u64>,
}

pub struct GmWorld<B: Bitmap + 'static> {
    pub gm: GuestMemoryMmap<B>,
    pub regs: Vec<RegSpec>,
    pub model: Vec<Vec<u8>>,
    pub ptrs: Vec<*mut u8>,
    pub files: Vec<Option<File>>,
    /// regions taken out of the map by remove_region and kept alive for a later insert_region
    pub unplugged: Vec<(RegSpec, Vec<u8>, *mut u8, Option<File>, std::sync::Arc<GuestRegionMmap<B>>)>,
}

pub fn memfd(len: u64) -> File {
    // SAFETY: plain syscalls creating an anonymous file.
    unsafe {
        let fd = libc::memfd_create(b"vmsim\0".as_ptr() as *const libc::c_char, 0);
        assert!(fd >= 0, "memfd_create failed");
        assert_eq!(libc::ftruncate(fd, len as libc::off_t), 0);
        File::from_raw_fd(fd)
    }
}

pub fn pat(seed: u32, i: usize) -> u8 {
    (seed.wrapping_mul(131).wrapping_add(i as u32 * 13).wrapping_add(7) & 0xff) as u8
}

/// Generate a layout: 1..=4 sorted disjoint regions (touching, 1-byte holes, large holes, at 0,
/// ending at the top of the address space).
pub fn gen_layout(max_regions: u32, allow_files: bool) -> Vec<RegSpec> {
    let c = cx();
    let n = 1 + c.a(max_regions) as usize;
    let sizes = [1usize, 7, 64, 100, 4095, 4096, 4097, 8192, 300];
    let mut regs: Vec<RegSpec> = Vec::new();
    let top = c.a(6) == 0;
    let mut cur: u64 = match c.a(4) {
        0 => 0,
        1 => 0x1000,
        2 => 0x1_0000_0000 - 64,
        _ => 8 * c.a(1000) as u64,
    };
    for i in 0..n {
        let size = c.pick(&sizes);
        let file_off = if allow_files && c.a(4) == 0 { Some(4096 * c.a(3) as u64) } else { None };
        regs.push(RegSpec { base: cur, size, file_off });
        let gap: u64 = match c.a(5) {
            0 | 1 => 0,
            2 => 1,
            3 => 8 * (1 + c.a(16) as u64),
            _ => 0x10_0000 + c.a(4096) as u64,
        };
        cur = cur + size as u64 + gap;
        let _ = i;
    }
    if top {
        // move the last region so that base + size == u64::MAX (the highest layout accepted)
        let l = regs.last_mut().unwrap();
        l.base = u64::MAX - l.size as u64;
    }
    regs
}

impl<B: NewBitmap + 'static> GmWorld<B> {
    pub fn build(regs: Vec<RegSpec>, seed: u32) -> GmWorld<B> {
        Self::build_with(regs, seed, |spec, file| {
            let fo = file.map(|f| FileOffset::new(f.try_clone().expect("dup"), spec.file_off.unwrap()));
            GuestRegionMmap::<B>::from_range(GuestAddress(spec.base), spec.size, fo).expect("region")
        })
    }
}

impl<B: Bitmap + 'static> GmWorld<B> {
    pub fn build_with(regs: Vec<RegSpec>, seed: u32, mut mkreg: impl FnMut(&RegSpec, Option<&File>) -> GuestRegionMmap<B>) -> GmWorld<B> {
        let mut files = Vec::new();
        let mut regions = Vec::new();
        in_mode(Mode::Setup, || {
            for spec in &regs {
                let file = spec.file_off.map(|o| memfd(o + spec.size as u64 + 17));
                regions.push(mkreg(spec, file.as_ref()));
                files.push(file);
            }
        });
        let gm = in_mode(Mode::Setup, || GuestMemoryMmap::from_regions(regions).expect("guest memory"));
        let mut ptrs = Vec::new();
        let mut model = Vec::new();
        for (i, spec) in regs.iter().enumerate() {
            let r = gm.find_region(GuestAddress(spec.base)).expect("region present");
            let p = r.get_host_address(MemoryRegionAddress(0)).expect("host address");
            let m: Vec<u8> = (0..spec.size).map(|k| pat(seed + i as u32, k)).collect();
            raw_write(p, &m);
            cx().add_range(p as usize, spec.size.div_ceil(4096) * 4096, i as u32, true);
            ptrs.push(p);
            model.push(m);
        }
        GmWorld { gm, regs, model, ptrs, files, unplugged: Vec::new() }
    }

    fn reregister(&self) {
        cx().clear_ranges();
        for (i, spec) in self.regs.iter().enumerate() {
            cx().add_range(self.ptrs[i] as usize, spec.size.div_ceil(4096) * 4096, i as u32, true);
        }
    }

    /// Derive the map without region `i` (remove_region); the region handle is kept for later.
    pub fn unplug(&mut self, i: usize) -> Result<(), String> {
        let spec = self.regs[i].clone();
        let (m, arc) = self.gm.remove_region(GuestAddress(spec.base), spec.size as u64).map_err(|e| format!("{:?}", e))?;
        self.gm = m;
        self.regs.remove(i);
        let model = self.model.remove(i);
        let ptr = self.ptrs.remove(i);
        let file = self.files.remove(i);
        self.unplugged.push((spec, model, ptr, file, arc));
        self.reregister();
        Ok(())
    }

    /// Derive the map with the last unplugged region inserted again (insert_region).
    pub fn replug(&mut self) -> Result<(), String> {
        let Some((spec, model, ptr, file, arc)) = self.unplugged.pop() else { return Ok(()) };
        let m = self.gm.insert_region(arc).map_err(|e| format!("{:?}", e))?;
        self.gm = m;
        let pos = self.regs.iter().position(|r| r.base > spec.base).unwrap_or(self.regs.len());
        self.regs.insert(pos, spec);
        self.model.insert(pos, model);
        self.ptrs.insert(pos, ptr);
        self.files.insert(pos, file);
        self.reregister();
        Ok(())
    }

    pub fn find(&self, addr: u64) -> Option<(usize, usize)> {
        for (i, r) in self.regs.iter().enumerate() {
            if addr >= r.base && addr - r.base < r.size as u64 {
                return Some((i, (addr - r.base) as usize));
            }
        }
        None
    }

    /// length of the longest run of consecutively mapped addresses starting at `addr`, capped
    pub fn run(&self, addr: u64, cap: usize) -> usize {
        let mut total = 0usize;
        let mut cur = addr;
        while total < cap {
            match self.find(cur) {
                Some((i, off)) => {
                    let n = (self.regs[i].size - off).min(cap - total);
                    total += n;
                    match cur.checked_add(n as u64) {
                        Some(c) => cur = c,
                        None => break,
                    }
                }
                None => break,
            }
        }
        total
    }

    pub fn model_write(&mut self, addr: u64, data: &[u8]) {
        for (k, &b) in data.iter().enumerate() {
            let (i, off) = self.find(addr + k as u64).expect("model write inside mapped run");
            self.model[i][off] = b;
        }
    }

    pub fn model_read(&self, addr: u64, n: usize) -> Vec<u8> {
        (0..n)
            .map(|k| {
                let (i, off) = self.find(addr + k as u64).expect("model read inside mapped run");
                self.model[i][off]
            })
            .collect()
    }

    /// Compare every region (through the host pointer and, for file-backed ones, through pread
    /// on the backing file) with the model.
    pub fn verify(&self) -> Option<String> {
        for (i, spec) in self.regs.iter().enumerate() {
            let now = raw_read(self.ptrs[i], spec.size);
            if now != self.model[i] {
                let k = now.iter().zip(self.model[i].iter()).position(|(a, b)| a != b).unwrap();
                return Some(format!("region {} (base {:#x}, size {}) byte {} is {:#04x}, the model says {:#04x}", i, spec.base, spec.size, k, now[k], self.model[i][k]));
            }
            let tail = raw_read(unsafe { self.ptrs[i].add(spec.size) }, spec.size.div_ceil(4096) * 4096 - spec.size);
            if spec.file_off.is_none() && tail.iter().any(|&b| b != 0) {
                return Some(format!("a byte after the end of region {} (size {}) was written", i, spec.size));
            }
            if let (Some(f), Some(off)) = (&self.files[i], spec.file_off) {
                let mut buf = vec![0u8; spec.size];
                // SAFETY: pread into our own buffer.
                let n = unsafe { libc::pread(f.as_raw_fd(), buf.as_mut_ptr() as *mut libc::c_void, spec.size, off as libc::off_t) };
                if n != spec.size as isize || buf != self.model[i] {
                    return Some(format!("backing file of region {} differs from the model (pread returned {})", i, n));
                }
            }
        }
        None
    }

    pub fn describe(&self) -> Vec<String> {
        self.regs.iter().map(|r| format!("[{:#x}, +{}){}", r.base, r.size, if r.file_off.is_some() { " file" } else { "" })).collect()
    }

    pub fn teardown(self) {
        cx().clear_ranges();
        let GmWorld { gm, unplugged, files, .. } = self;
        in_mode(Mode::Setup, || {
            drop(gm);
            drop(unplugged);
        });
        drop(files);
    }
}

/// boundary-biased guest address for a layout
pub fn gen_gaddr(regs: &[RegSpec]) -> u64 {
    let c = cx();
    let r = &regs[c.a(regs.len() as u32) as usize];
    match c.a(10) {
        0 => r.base,
        1 => r.base + r.size as u64 - 1,
        2 => r.base.wrapping_add(r.size as u64),
        3 => r.base.wrapping_sub(1),
        4 => r.base + (r.size as u64).saturating_sub(1 + c.a(9) as u64),
        5 => r.base.wrapping_add(r.size as u64).wrapping_add(c.a(9) as u64),
        6 => [0u64, u64::MAX, u64::MAX - 1, 1 << 63][c.a(4) as usize],
        _ => r.base + c.a(r.size as u32) as u64,
    }
}
