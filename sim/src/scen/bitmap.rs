//! S-bitmap: concurrent (C08), canonical saturation (C08) and model (C09) configurations.

use super::{RunInfo, Scenario};
use crate::json::J;
use crate::sim::{catch, cx, fmt_ev, in_mode, run_concurrent, EvKind, Mode, OpOutcome, Policy};
use std::cell::RefCell;
use std::collections::{BTreeMap, BTreeSet};
use std::num::NonZeroUsize;
use std::sync::Arc;
use vm_memory::bitmap::{ArcSlice, AtomicBitmap, Bitmap, RefSlice};

// ---------------------------------------------------------------------------------------------
// shared pieces

#[derive(Clone, Copy, Debug, PartialEq, Eq)]
pub enum View {
    Direct,
    Ref(usize),
    RefRef(usize, usize),
    OptRef(usize),
    Arc(usize),
    ArcArc(usize, usize),
    /// through `Bitmap::slice_at` of the bitmap itself
    At(usize),
    AtAt(usize, usize),
}

impl View {
    fn base(&self) -> usize {
        match *self {
            View::Direct => 0,
            View::Ref(a) | View::OptRef(a) | View::Arc(a) | View::At(a) => a,
            View::RefRef(a, b) | View::ArcArc(a, b) | View::AtAt(a, b) => a.wrapping_add(b),
        }
    }
    fn mark(&self, bm: &Arc<AtomicBitmap>, off: usize, len: usize) {
        match *self {
            View::Direct => bm.mark_dirty(off, len),
            View::Ref(a) => RefSlice::new(&**bm, a).mark_dirty(off, len),
            View::RefRef(a, b) => RefSlice::new(&**bm, a).slice_at(b).mark_dirty(off, len),
            View::OptRef(a) => Some(RefSlice::new(&**bm, a)).mark_dirty(off, len),
            View::Arc(a) => ArcSlice::new(bm.clone(), a).mark_dirty(off, len),
            View::ArcArc(a, b) => ArcSlice::new(bm.clone(), a).slice_at(b).mark_dirty(off, len),
            View::At(a) => Bitmap::slice_at(&**bm, a).mark_dirty(off, len),
            View::AtAt(a, b) => Bitmap::slice_at(&**bm, a).slice_at(b).mark_dirty(off, len),
        }
    }
    fn dirty_at(&self, bm: &Arc<AtomicBitmap>, off: usize) -> bool {
        match *self {
            View::Direct => bm.dirty_at(off),
            View::Ref(a) => RefSlice::new(&**bm, a).dirty_at(off),
            View::RefRef(a, b) => RefSlice::new(&**bm, a).slice_at(b).dirty_at(off),
            View::OptRef(a) => Some(RefSlice::new(&**bm, a)).dirty_at(off),
            View::Arc(a) => ArcSlice::new(bm.clone(), a).dirty_at(off),
            View::ArcArc(a, b) => ArcSlice::new(bm.clone(), a).slice_at(b).dirty_at(off),
            View::At(a) => Bitmap::slice_at(&**bm, a).dirty_at(off),
            View::AtAt(a, b) => Bitmap::slice_at(&**bm, a).slice_at(b).dirty_at(off),
        }
    }
    fn describe(&self) -> String {
        format!("{:?}", self)
    }
}

#[derive(Clone, Debug)]
pub enum Op {
    Mark(View, usize, usize),
    SetBit(usize),
    ResetRange(usize, usize),
    ResetBit(usize),
    Harvest,
    CloneRead,
    Probe(View, usize),
}

impl Op {
    fn is_mark(&self) -> bool {
        matches!(self, Op::Mark(..) | Op::SetBit(_))
    }
    fn is_reset(&self) -> bool {
        matches!(self, Op::ResetRange(..) | Op::ResetBit(_))
    }
    fn describe(&self) -> String {
        match self {
            Op::Mark(v, o, l) => format!("mark_dirty[{}]({},{})", v.describe(), o, l),
            Op::SetBit(i) => format!("set_bit({})", i),
            Op::ResetRange(a, l) => format!("reset_addr_range({},{})", a, l),
            Op::ResetBit(i) => format!("reset_bit({})", i),
            Op::Harvest => "get_and_reset()".into(),
            Op::CloneRead => "clone()".into(),
            Op::Probe(v, o) => format!("dirty_at[{}]({})", v.describe(), o),
        }
    }
}

#[derive(Clone, Debug, Default)]
pub struct OpRes {
    start: usize,
    end: usize,
    words: Option<Vec<u64>>,
    probe: Option<bool>,
    panic: Option<String>,
    sim_abort: bool,
}

fn exec(bm: &Arc<AtomicBitmap>, op: &Op) -> (Option<Vec<u64>>, Option<bool>) {
    match op {
        Op::Mark(v, o, l) => {
            v.mark(bm, *o, *l);
            (None, None)
        }
        Op::SetBit(i) => {
            bm.set_bit(*i);
            (None, None)
        }
        Op::ResetRange(a, l) => {
            bm.reset_addr_range(*a, *l);
            (None, None)
        }
        Op::ResetBit(i) => {
            bm.reset_bit(*i);
            (None, None)
        }
        Op::Harvest => (Some(bm.get_and_reset()), None),
        Op::CloneRead => {
            // a fresh clone, or a copy made into an existing, larger and fully dirty bitmap of the same
            // granularity (Clone::clone_from): either way the copy holds the source's pages and no others
            let c = if bm.len() % 2 == 0 {
                (**bm).clone()
            } else {
                let ps = NonZeroUsize::new((bm.byte_size() / bm.len().max(1)).max(1)).unwrap();
                let mut d = in_mode(Mode::Oracle, || {
                    let d = AtomicBitmap::new(bm.byte_size() + 200 * ps.get(), ps);
                    for i in 0..d.len() {
                        d.set_bit(i);
                    }
                    d
                });
                d.clone_from(&**bm);
                d
            };
            let words = in_mode(Mode::Oracle, || c.get_and_reset());
            (Some(words), None)
        }
        Op::Probe(v, o) => (None, Some(v.dirty_at(bm, *o))),
    }
}

fn bits_of(words: &[u64]) -> BTreeSet<usize> {
    let mut s = BTreeSet::new();
    for (w, &v) in words.iter().enumerate() {
        let mut v = v;
        while v != 0 {
            let b = v.trailing_zeros() as usize;
            s.insert(w * 64 + b);
            v &= v - 1;
        }
    }
    s
}

fn read_all(bm: &AtomicBitmap, upto: usize) -> BTreeSet<usize> {
    in_mode(Mode::Oracle, || (0..upto).filter(|&i| bm.is_bit_set(i)).collect())
}

/// Pages the operation names: the set it must make dirty / the set it may clear.
fn model_effect(byte_size: usize, ps: NonZeroUsize, op: &Op) -> (BTreeSet<usize>, BTreeSet<usize>) {
    let ps = ps.get();
    let n = byte_size.div_ceil(ps);
    let range = |addr: usize, len: usize| -> BTreeSet<usize> {
        if len == 0 || addr / ps >= n {
            return BTreeSet::new();
        }
        let last = addr.saturating_add(len - 1) / ps;
        (addr / ps..=last.min(n.saturating_sub(1))).collect()
    };
    let one = |i: usize| -> BTreeSet<usize> { if i < n { [i].into_iter().collect() } else { BTreeSet::new() } };
    match op {
        Op::Mark(v, o, l) => (range(v.base().wrapping_add(*o), *l), BTreeSet::new()),
        Op::SetBit(i) => (one(*i), BTreeSet::new()),
        Op::ResetRange(a, l) => (BTreeSet::new(), range(*a, *l)),
        Op::ResetBit(i) => (BTreeSet::new(), one(*i)),
        _ => (BTreeSet::new(), BTreeSet::new()),
    }
}

/// Bits the operation sets when run alone on an empty bitmap / clears when run alone on a full one.
#[allow(dead_code)]
fn solo_effect(byte_size: usize, ps: NonZeroUsize, op: &Op) -> (BTreeSet<usize>, BTreeSet<usize>) {
    in_mode(Mode::Oracle, || {
        let empty = Arc::new(AtomicBitmap::new(byte_size, ps));
        let n = empty.len();
        let _ = catch(|| exec(&empty, op));
        let set: BTreeSet<usize> = (0..n + 70).filter(|&i| empty.is_bit_set(i)).collect();
        let full = Arc::new(AtomicBitmap::new(byte_size, ps));
        for i in 0..n {
            full.set_bit(i);
        }
        let cleared = if op.is_reset() {
            let _ = catch(|| exec(&full, op));
            (0..n).filter(|&i| !full.is_bit_set(i)).collect()
        } else {
            BTreeSet::new()
        };
        (set, cleared)
    })
}

fn register_words(bm: &AtomicBitmap) {
    // touch every word once, in order, so that word k is logged as atomic id k
    let n = bm.len();
    in_mode(Mode::Setup, || {
        let mut i = 0;
        while i < n {
            let _ = bm.is_bit_set(i);
            i += 64;
        }
    });
}

struct Geometry {
    ps: NonZeroUsize,
    pages: usize,
    byte_size: usize,
}

fn gen_geometry() -> Geometry {
    let c = cx();
    let ps = c.pick(&[1usize, 1, 2, 3, 7, 64, 128, 4096]);
    let pages = match c.a(8) {
        0 => 64,
        1 => 65,
        2 => 63,
        3 => 128,
        4 => 127 + c.a(3) as usize,
        5 => 1 + c.a(8) as usize,
        6 => 60 + c.a(10) as usize,
        _ => 1 + c.a(200) as usize,
    };
    // the last page may be partial
    let cut = if ps > 1 && c.a(3) == 0 { 1 + c.a((ps - 1).min(50) as u32) as usize } else { 0 };
    let byte_size = pages * ps - cut.min(ps - 1);
    Geometry {
        ps: NonZeroUsize::new(ps).unwrap(),
        pages,
        byte_size,
    }
}

fn gen_view(g: &Geometry) -> View {
    let c = cx();
    let span = g.byte_size.max(1);
    let off = |c: &mut crate::sim::Ctx| -> usize {
        match c.a(4) {
            0 => 0,
            1 => g.ps.get() * (c.a(4) as usize),
            _ => c.a(span.min(1 << 20) as u32) as usize,
        }
    };
    match c.a(10) {
        0 | 1 | 2 => View::Direct,
        3 => View::Ref(off(c)),
        4 => View::RefRef(off(c), off(c)),
        5 => View::OptRef(off(c)),
        6 => View::Arc(off(c)),
        7 => View::At(off(c)),
        8 => View::AtAt(off(c), off(c)),
        _ => View::ArcArc(off(c), off(c)),
    }
}

/// a page index biased to a word boundary shared by all actors of the run
fn gen_page(g: &Geometry, hot: usize) -> usize {
    let c = cx();
    let p = match c.a(4) {
        0 => hot,
        1 => hot.saturating_sub(1 + c.a(3) as usize),
        2 => hot + 1 + c.a(3) as usize,
        _ => c.a(g.pages as u32 + 2) as usize,
    };
    p
}

fn gen_op(g: &Geometry, hot: usize) -> Op {
    let c = cx();
    let ps = g.ps.get();
    match c.a(12) {
        0 | 1 | 2 | 3 => {
            let v = gen_view(g);
            let page = gen_page(g, hot);
            let addr = page * ps + c.a(ps.min(64) as u32) as usize;
            let len = match c.a(7) {
                0 => 1,
                1 => ps,
                2 => 1 + c.a((3 * ps).min(4096) as u32) as usize,
                3 => ps * (1 + c.a(4) as usize),
                // long ranges: complete a partly dirty word, span whole words
                4 => ps * (8 + c.a(60) as usize),
                5 => ps * 32,
                // a length that runs past the end of the address space: the pages that exist are still owed
                6 if c.a(3) == 0 => usize::MAX - c.a(4) as usize,
                _ => 1 + c.a(3) as usize,
            };
            // the view adds its base; aim so that base+off == addr when possible
            let off = addr.wrapping_sub(v.base());
            Op::Mark(v, off, len)
        }
        4 => Op::SetBit(gen_page(g, hot)),
        5 | 6 => {
            let page = gen_page(g, hot);
            let len = match c.a(5) {
                0 => 1,
                1 => ps,
                // ranges that start in one word and end in a later one
                2 => ps * (2 + c.a(6) as usize),
                3 => ps * (8 + c.a(70) as usize),
                _ => 1 + c.a((2 * ps).min(4096) as u32) as usize,
            };
            Op::ResetRange(page * ps, len)
        }
        7 => Op::ResetBit(gen_page(g, hot)),
        8 | 9 => Op::Harvest,
        10 => Op::CloneRead,
        _ => {
            let v = gen_view(g);
            let addr = gen_page(g, hot) * ps;
            Op::Probe(v, addr.wrapping_sub(v.base()))
        }
    }
}

fn gen_policy() -> Policy {
    let c = cx();
    match c.a(7) {
        0 => Policy::Uniform,
        1 => Policy::Sticky(1, 2),
        2 => Policy::Sticky(4, 5),
        3 => Policy::Sticky(19, 20),
        4 => Policy::Pct(0),
        5 => Policy::Pct(1),
        _ => Policy::Pct(2),
    }
}

fn run_actors(bm: &Arc<AtomicBitmap>, prog: &[Vec<Op>]) -> Vec<Vec<OpRes>> {
    let results: Vec<RefCell<Vec<OpRes>>> = prog.iter().map(|_| RefCell::new(Vec::new())).collect();
    {
        let mut bodies: Vec<Box<dyn FnOnce() + '_>> = Vec::new();
        for (ai, ops) in prog.iter().enumerate() {
            let res = &results[ai];
            let bm = bm.clone();
            bodies.push(Box::new(move || {
                for (oi, op) in ops.iter().enumerate() {
                    let idx = (ai * 16 + oi) as u64;
                    let start = cx().events.len();
                    cx().op_begin(idx);
                    let out = catch(|| exec(&bm, op));
                    let mut r = OpRes {
                        start,
                        ..Default::default()
                    };
                    match out {
                        OpOutcome::Ok((w, p)) => {
                            r.words = w;
                            r.probe = p;
                        }
                        OpOutcome::Panic(m) => r.panic = Some(m),
                        OpOutcome::Sim(_) => r.sim_abort = true,
                    }
                    cx().op_end(idx, 0);
                    r.end = cx().events.len();
                    let abort = r.sim_abort;
                    res.borrow_mut().push(r);
                    if abort {
                        break;
                    }
                }
            }));
        }
        run_concurrent(bodies);
    }
    results.into_iter().map(|r| r.into_inner()).collect()
}

struct Verdict {
    nontrivial: bool,
}

/// History oracle of C08 (DESIGN.md §4.1).
fn judge_c08(g: &Geometry, bm: &Arc<AtomicBitmap>, prog: &[Vec<Op>], res: &[Vec<OpRes>], preset: &BTreeSet<usize>, label: &str) -> Verdict {
    let n = bm.len();
    let mut marked: BTreeMap<usize, usize> = BTreeMap::new(); // bit -> number of mark ops that set it
    for &b in preset {
        *marked.entry(b).or_insert(0) += 1;
    }
    let mut effects: Vec<(usize, usize, BTreeSet<usize>, BTreeSet<usize>)> = Vec::new();
    let mut any_mark = false;
    let mut any_other = false;
    for (ai, ops) in prog.iter().enumerate() {
        for (oi, op) in ops.iter().enumerate() {
            let Some(r) = res[ai].get(oi) else { continue };
            if let Some(p) = &r.panic {
                cx().violate("C08", "C08/panic", format!("panic op={}", op_kind(op)), format!("{} panicked: {}", op.describe(), p));
                continue;
            }
            if r.sim_abort {
                continue;
            }
            // what the operation is owed to set / allowed to clear: the pages overlapping the range it
            // names (the page-set model of C09), not whatever the implementation does when run alone
            let (s, cl) = model_effect(g.byte_size, g.ps, op);
            if op.is_mark() {
                any_mark = true;
                for &b in &s {
                    *marked.entry(b).or_insert(0) += 1;
                }
            } else {
                any_other = true;
            }
            effects.push((ai, oi, s, cl));
        }
    }
    let fin = read_all(bm, n + 70);
    // At quiescence every way of looking at the bitmap must agree: a copy made now and a fetch-and-clear
    // made now report exactly the pages that are still set, and the fetch-and-clear leaves nothing behind
    // (a mark that is "still set" but that no later fetch-and-clear or copy reports is never observed).
    {
        let copy = in_mode(Mode::Oracle, || bm.as_ref().clone());
        let in_copy = read_all(&copy, n + 70);
        let last: BTreeSet<usize> = in_mode(Mode::Oracle, || bits_of(&bm.get_and_reset())).into_iter().collect();
        let left = read_all(bm, n + 70);
        if let Some(b) = fin.iter().find(|b| **b < n && !last.contains(b)) {
            cx().violate("C08", "C08/conservation", "mark invisible to a later fetch-and-clear".into(), format!("[{}] page {} is set after all threads finished, but a get_and_reset() made then does not report it", label, b));
        } else if let Some(b) = fin.iter().find(|b| **b < n && !in_copy.contains(b)) {
            cx().violate("C08", "C08/conservation", "mark invisible to a later copy".into(), format!("[{}] page {} is set after all threads finished, but a clone() made then does not show it", label, b));
        } else if let Some(b) = last.iter().chain(in_copy.iter()).find(|b| !fin.contains(b)) {
            cx().violate("C08", "C08/phantom", "phantom at quiescence".into(), format!("[{}] page {} is reported by a get_and_reset() or clone() made after all threads finished, but was not set", label, b));
        } else if let Some(b) = left.iter().next() {
            cx().violate("C08", "C08/duplication", "fetch-and-clear left a page set".into(), format!("[{}] page {} is still set after a get_and_reset() made when all threads had finished", label, b));
        }
    }
    // harvested multiset, phantoms
    let mut harvested: BTreeMap<usize, usize> = BTreeMap::new();
    for (ai, ops) in prog.iter().enumerate() {
        for (oi, op) in ops.iter().enumerate() {
            let Some(r) = res[ai].get(oi) else { continue };
            if let Some(w) = &r.words {
                for b in bits_of(w) {
                    if !marked.contains_key(&b) || b >= n {
                        cx().violate(
                            "C08",
                            "C08/phantom",
                            format!("phantom in {}", op_kind(op)),
                            format!("[{}] a{}.op{} {} reported page {} which nobody marked (page count {})", label, ai, oi, op.describe(), b, n),
                        );
                    }
                    if matches!(op, Op::Harvest) {
                        *harvested.entry(b).or_insert(0) += 1;
                    }
                }
            }
            if let (Op::Probe(v, o), Some(true)) = (op, r.probe) {
                let page = v.base().wrapping_add(*o) / g.ps.get();
                if !marked.contains_key(&page) {
                    cx().violate("C08", "C08/phantom", "phantom in probe".into(), format!("[{}] {} returned true for page {} which nobody marked", label, op.describe(), page));
                }
            }
        }
    }
    for &b in &fin {
        if !marked.contains_key(&b) || b >= n {
            cx().violate("C08", "C08/phantom", "phantom in final map".into(), format!("[{}] page {} set at the end but nobody marked it (page count {})", label, b, n));
        }
    }
    // every report of a page (a harvest containing it, or its bit still set at the end) consumes one
    // 0 -> 1 transition, and each mark operation makes at most one such transition per page
    for (&b, &k) in &harvested {
        let m = marked.get(&b).copied().unwrap_or(0);
        let total = k + fin.contains(&b) as usize;
        if total > m {
            cx().violate("C08", "C08/duplication", "duplicate harvest".into(), format!("[{}] page {} was reported {} time(s) ({} harvest(s){}) but marked only {} time(s)", label, b, total, k, if fin.contains(&b) { " and still set at the end" } else { "" }, m));
        }
    }
    // conservation
    for (ai, oi, s, _) in effects.iter().filter(|e| prog[e.0][e.1].is_mark()) {
        let mr = &res[*ai][*oi];
        for &b in s {
            // a reset that could have cleared this mark: covers the bit and did not finish before the mark began
            let cleared = effects.iter().any(|(rai, roi, _, cl)| cl.contains(&b) && res[*rai][*roi].end > mr.start);
            if cleared {
                continue;
            }
            if !harvested.contains_key(&b) && !fin.contains(&b) {
                cx().violate(
                    "C08",
                    "C08/conservation",
                    format!("lost mark from {}", op_kind(&prog[*ai][*oi])),
                    format!("[{}] page {} marked by a{}.op{} {} is in no get_and_reset result and clear at the end", label, b, ai, oi, prog[*ai][*oi].describe()),
                );
            }
        }
    }
    for &b in preset {
        let cleared = effects.iter().any(|(_, _, _, cl)| cl.contains(&b));
        if !cleared && !harvested.contains_key(&b) && !fin.contains(&b) {
            cx().violate("C08", "C08/conservation", "lost preset mark".into(), format!("[{}] page {} marked before the run is in no get_and_reset result and clear at the end", label, b));
        }
    }
    Verdict {
        nontrivial: any_mark && any_other && cx().sched.inop_switches > 0,
    }
}

fn op_kind(op: &Op) -> &'static str {
    match op {
        Op::Mark(..) => "mark_dirty",
        Op::SetBit(_) => "set_bit",
        Op::ResetRange(..) => "reset_addr_range",
        Op::ResetBit(_) => "reset_bit",
        Op::Harvest => "get_and_reset",
        Op::CloneRead => "clone",
        Op::Probe(..) => "dirty_at",
    }
}

fn atomic_signature() -> u64 {
    let mut h: u64 = 0xcbf2_9ce4_8422_2325;
    let first = cx().events.iter().position(|e| e.kind == EvKind::OpStart).unwrap_or(0);
    for e in cx().events[first..].iter().filter(|e| e.kind == EvKind::Atomic) {
        h = (h ^ (e.actor as u64 + 1)).wrapping_mul(0x0000_0100_0000_01B3);
    }
    h
}

fn describe_run(g: &Geometry, prog: &[Vec<Op>], res: &[Vec<OpRes>], extra: &str) -> J {
    let c = cx();
    let sched: Vec<String> = c.events.iter().filter(|e| matches!(e.kind, EvKind::Atomic)).take(60).map(fmt_ev).collect();
    let mut actors = Vec::new();
    for (ai, ops) in prog.iter().enumerate() {
        let mut l = Vec::new();
        for (oi, op) in ops.iter().enumerate() {
            let r = res.get(ai).and_then(|r| r.get(oi));
            let out = match r {
                Some(r) if r.words.is_some() => format!(" -> {:x?}", r.words.as_ref().unwrap()),
                Some(r) if r.probe.is_some() => format!(" -> {}", r.probe.unwrap()),
                Some(r) if r.panic.is_some() => format!(" -> PANIC {}", r.panic.as_ref().unwrap()),
                _ => String::new(),
            };
            l.push(J::s(format!("{}{}", op.describe(), out)));
        }
        actors.push(J::Arr(l));
    }
    J::obj()
        .set("config", J::s(format!("pages={} page_size={} byte_size={} policy={:?} {}", g.pages, g.ps, g.byte_size, c.sched.policy, extra)))
        .set("actors", J::Arr(actors))
        .set("atomic_steps", J::strs(sched))
        .set("context_switches", J::i(c.sched.switches))
}

// ---------------------------------------------------------------------------------------------
// S-bitmap / concurrent

pub struct Conc;
pub static CONC: Conc = Conc;

impl Scenario for Conc {
    fn name(&self) -> &'static str {
        "S-bitmap/concurrent"
    }

    fn run(&self) -> RunInfo {
        let g = gen_geometry();
        let c = cx();
        c.cfg.yield_atomic = true;
        c.sched.policy = gen_policy();
        c.sched.budget = 20_000;
        let nact = 2 + (c.a(3) == 0) as usize;
        // a hot page next to a word boundary that the actors fight over
        let hot = if g.pages > 64 && c.a(3) != 0 { 64 * (1 + c.a((g.pages / 64) as u32) as usize).min(g.pages / 64) - (c.a(2) as usize) } else { c.a(g.pages as u32) as usize };
        let hot = hot.min(g.pages - 1);
        let mut prog: Vec<Vec<Op>> = Vec::new();
        for _ in 0..nact {
            let k = 1 + c_a(4) as usize;
            prog.push((0..k).map(|_| gen_op(&g, hot)).collect());
        }
        // a third of the bitmaps reach their size through enlarge
        // (now and then with pages marked before it grew: those marks are owed to the harvests of the run)
        let (bm0, preset) = in_mode(Mode::Oracle, || crate::world::grown_bitmap_marked(g.byte_size, g.ps.get()));
        let bm = Arc::new(bm0);
        cx().mode = Mode::Setup;
        register_words(&bm);
        let res = run_actors(&bm, &prog);
        let c = cx();
        c.count_n("sim.steps", c.sched.steps);
        if c.sched.over_budget {
            c.harness_error = Some("step budget exceeded in S-bitmap/concurrent".into());
        }
        let v = judge_c08(&g, &bm, &prog, &res, &preset, "concurrent");
        probes(&prog, &res);
        let desc = if cx().trace { Some(describe_run(&g, &prog, &res, &format!("hot_page={} pages_marked_before_growing={:?}", hot, preset))) } else { None };
        cx().mode = Mode::Oracle;
        RunInfo {
            nontrivial: v.nontrivial,
            desc,
            cell: None,
        }
    }
}

fn c_a(n: u32) -> u32 {
    cx().a(n)
}

/// reach probes of DESIGN.md §4.1
fn probes(prog: &[Vec<Op>], res: &[Vec<OpRes>]) {
    // per word: sequence of (actor, op kind) of atomic events
    let evs: Vec<(u8, u64, u64)> = cx().events.iter().filter(|e| e.kind == EvKind::Atomic).map(|e| (e.actor, e.a, e.b)).collect();
    let kind_of = |actor: u8, pos: usize| -> Option<&Op> {
        // find op of `actor` whose [start,end) event interval contains pos
        let ai = actor as usize;
        for (oi, r) in res.get(ai)?.iter().enumerate() {
            if pos >= r.start && pos < r.end {
                return prog[ai].get(oi);
            }
        }
        None
    };
    // map from filtered index to absolute event index
    let abs: Vec<usize> = cx().events.iter().enumerate().filter(|(_, e)| e.kind == EvKind::Atomic).map(|(i, _)| i).collect();
    for i in 1..evs.len().saturating_sub(1) {
        let (a0, w0, _) = evs[i - 1];
        let (a1, w1, k1) = evs[i];
        let (a2, w2, _) = evs[i + 1];
        if a0 == a2 && a1 != a0 {
            let mid = kind_of(a1, abs[i]);
            let outer = kind_of(a0, abs[i - 1]);
            match (outer, mid) {
                (Some(o), Some(Op::Harvest)) if o.is_mark() && w0 == w1 && w1 == w2 && k1 == 3 => cx().count("probe.harvest_between_two_marks_same_word"),
                (Some(Op::Harvest), Some(m)) if m.is_mark() => cx().count("probe.mark_between_two_harvest_steps"),
                (Some(Op::CloneRead), Some(m)) if m.is_mark() => cx().count("probe.mark_during_clone"),
                (Some(o), Some(m)) if o.is_reset() && m.is_mark() && w0 == w1 => cx().count("probe.mark_between_reset_steps_same_word"),
                (Some(o), Some(m)) if o.is_mark() && m.is_reset() && w0 == w1 => cx().count("probe.reset_between_mark_steps_same_word"),
                _ => {}
            }
        }
    }
}

// ---------------------------------------------------------------------------------------------
// S-bitmap / canonical: small fixed two/three-actor scenarios, interleavings counted

pub struct Canon;
pub static CANON: Canon = Canon;

fn canon_configs() -> Vec<(&'static str, Vec<usize>, Vec<Vec<Op>>)> {
    use Op::*;
    let d = View::Direct;
    vec![
        ("mark|harvest", vec![], vec![vec![Mark(d, 3, 1)], vec![Harvest]]),
        ("mark|mark same word", vec![], vec![vec![Mark(d, 3, 1)], vec![Mark(d, 5, 1)]]),
        ("mark x4 across words|harvest", vec![], vec![vec![Mark(d, 62, 4)], vec![Harvest]]),
        ("mark x2|reset x2", vec![], vec![vec![Mark(d, 3, 2)], vec![ResetRange(4, 2)]]),
        ("mark|clone", vec![], vec![vec![Mark(d, 3, 1)], vec![CloneRead]]),
        ("mark x2|harvest|mark", vec![], vec![vec![Mark(d, 63, 2)], vec![Harvest], vec![Mark(d, 64, 1)]]),
        ("harvest|harvest (preset)", vec![1, 70], vec![vec![Harvest], vec![Harvest]]),
        ("set_bit|set_bit|harvest", vec![], vec![vec![SetBit(63)], vec![SetBit(64)], vec![Harvest]]),
        ("mark x3|reset_bit|harvest", vec![], vec![vec![Mark(d, 0, 3)], vec![ResetBit(1)], vec![Harvest]]),
        ("mark|clone|harvest", vec![5], vec![vec![Mark(d, 64, 1)], vec![CloneRead], vec![Harvest]]),
        ("reset x2|mark x2", vec![63], vec![vec![ResetRange(63, 2)], vec![Mark(d, 63, 2)]]),
        ("mark via slices|harvest", vec![], vec![vec![Mark(View::RefRef(30, 33), 0, 2)], vec![Mark(View::Arc(64), 0, 1), Harvest]]),
    ]
}

fn multinomial(parts: &[u64]) -> u64 {
    let mut r: u128 = 1;
    let mut n: u128 = 0;
    for &p in parts {
        for k in 1..=p as u128 {
            n += 1;
            r = r * n / k;
        }
    }
    r as u64
}

impl Scenario for Canon {
    fn name(&self) -> &'static str {
        "S-bitmap/canonical"
    }

    fn run(&self) -> RunInfo {
        let cfgs = canon_configs();
        let c = cx();
        let k = c.a(cfgs.len() as u32) as usize;
        let (label, preset, prog) = cfgs[k].clone();
        c.cfg.yield_atomic = true;
        c.sched.policy = Policy::Uniform;
        let g = Geometry {
            ps: NonZeroUsize::new(1).unwrap(),
            pages: 128,
            byte_size: 128,
        };
        // a third of the bitmaps reach their size through enlarge
        let bm = Arc::new(crate::world::grown_bitmap(g.byte_size, g.ps.get()));
        cx().mode = Mode::Setup;
        register_words(&bm);
        let preset: BTreeSet<usize> = preset.into_iter().collect();
        in_mode(Mode::Oracle, || {
            for &b in &preset {
                bm.set_bit(b)
            }
        });
        let res = run_actors(&bm, &prog);
        let c = cx();
        c.count_n("sim.steps", c.sched.steps);
        judge_c08(&g, &bm, &prog, &res, &preset, label);
        // steps per actor as actually executed
        let mut per = vec![0u64; prog.len()];
        let first = cx().events.iter().position(|e| e.kind == EvKind::OpStart).unwrap_or(0);
        for e in cx().events[first..].iter().filter(|e| e.kind == EvKind::Atomic) {
            per[e.actor as usize] += 1;
        }
        let possible = multinomial(&per);
        let sig = atomic_signature();
        let desc = if cx().trace { Some(describe_run(&g, &prog, &res, label)) } else { None };
        let nontrivial = cx().sched.inop_switches > 0;
        cx().mode = Mode::Oracle;
        RunInfo {
            nontrivial,
            desc,
            cell: Some((format!("{:02} {} (possible={})", k, label, possible), sig)),
        }
    }
}

// ---------------------------------------------------------------------------------------------
// S-bitmap / model (C09)

pub struct Model;
pub static MODEL: Model = Model;

struct MBitmap {
    real: Arc<AtomicBitmap>,
    pages: BTreeSet<usize>,
    size: usize,
    byte_size: usize,
    ps: usize,
}

fn model_range(m: &MBitmap, addr: usize, len: usize) -> Vec<usize> {
    if len == 0 {
        return vec![];
    }
    let first = addr / m.ps;
    let last = addr.saturating_add(len - 1) / m.ps;
    if first >= m.size {
        return vec![];
    }
    (first..=last.min(m.size.saturating_sub(1))).collect()
}

/// a bitmap from `NewBitmap::with_len` (system page size)
fn p2_default(byte_size: usize) -> (AtomicBitmap, usize) {
    use vm_memory::bitmap::NewBitmap;
    (AtomicBitmap::with_len(byte_size), 4096)
}

fn gen_size_ps() -> (usize, usize) {
    let c = cx();
    let ps = c.pick(&[1usize, 1, 2, 3, 7, 64, 100, 128, 4096, 1 << 20]);
    let byte_size = match c.a(9) {
        0 => 0,
        1 => 1,
        2 => ps,
        3 => ps * 64,
        4 => (ps * 64).saturating_sub(1),
        5 => ps * 64 + 1,
        6 => ps * 128 + c.a(3) as usize - 1,
        7 => c.a(400) as usize,
        _ => ps * (c.a(300) as usize) + c.a(ps.min(1000) as u32) as usize,
    };
    // keep the bitmap small
    let byte_size = if byte_size / ps > 400 { ps * 400 } else { byte_size };
    (byte_size, ps)
}

fn gen_addr(m: &MBitmap) -> usize {
    let c = cx();
    match c.a(10) {
        0 => 0,
        1 => m.byte_size,
        2 => m.byte_size.saturating_sub(1),
        3 => m.byte_size + 1 + c.a(2 * m.ps.min(5000) as u32) as usize,
        4 => usize::MAX - c.a(5) as usize,
        5 => (c.a(m.size as u32 + 2) as usize) * m.ps,
        6 => ((c.a(m.size as u32 + 2) as usize) * m.ps).saturating_sub(1),
        7 => 64 * m.ps * (1 + c.a(3) as usize) - c.a(2) as usize,
        _ => c.a((m.byte_size + m.ps + 2).min(u32::MAX as usize) as u32) as usize,
    }
}

fn gen_len(m: &MBitmap) -> usize {
    let c = cx();
    match c.a(10) {
        0 => 0,
        1 => 1,
        2 => m.ps,
        3 => m.ps + 1,
        4 => m.ps.saturating_sub(1).max(1),
        5 => usize::MAX,
        6 => usize::MAX - c.a(4) as usize,
        7 => m.byte_size + c.a(5) as usize,
        _ => 1 + c.a((3 * m.ps + 3).min(100_000) as u32) as usize,
    }
}

fn gen_mview(m: &MBitmap) -> View {
    let c = cx();
    let off = |c: &mut crate::sim::Ctx| -> usize {
        match c.a(7) {
            0 => 0,
            1 => m.ps,
            2 => usize::MAX - c.a(3) as usize,
            3 => m.byte_size,
            4 => m.byte_size + 1 + c.a(2 * m.ps.min(5000) as u32) as usize,
            _ => c.a((m.byte_size + 2).min(1 << 24) as u32) as usize,
        }
    };
    match c.a(11) {
        0 | 1 => View::Direct,
        2 => View::Ref(off(c)),
        3 => View::RefRef(off(c), off(c)),
        4 => View::OptRef(off(c)),
        5 => View::Arc(off(c)),
        6 | 7 => View::At(off(c)),
        8 | 9 => View::AtAt(off(c), off(c)),
        _ => View::ArcArc(off(c), off(c)),
    }
}

fn check_model(ms: &[MBitmap], step: &str, what: &str) {
    for (bi, m) in ms.iter().enumerate() {
        let bad = in_mode(Mode::Oracle, || -> Option<String> {
            if m.real.len() != m.size {
                return Some(format!("len() = {} but the model has {} pages", m.real.len(), m.size));
            }
            if m.real.byte_size() != m.byte_size {
                return Some(format!("byte_size() = {} but the model has {}", m.real.byte_size(), m.byte_size));
            }
            for i in 0..m.size + 70 {
                let r = m.real.is_bit_set(i);
                if r != m.pages.contains(&i) {
                    return Some(format!("is_bit_set({}) = {} but the model says {} (page count {})", i, r, !r, m.size));
                }
            }
            // addresses: all of a small bitmap, page boundaries +-1 of a large one
            let check_addr = |a: usize| -> Option<String> {
                let r = m.real.is_addr_set(a);
                let e = m.pages.contains(&(a / m.ps)) && a / m.ps < m.size;
                if r != e {
                    Some(format!("is_addr_set({}) = {} but the model says {}", a, r, e))
                } else {
                    None
                }
            };
            if m.byte_size <= 600 {
                for a in 0..m.byte_size + m.ps.min(300) + 2 {
                    if let Some(e) = check_addr(a) {
                        return Some(e);
                    }
                }
            } else {
                for p in 0..m.size + 2 {
                    for a in [(p * m.ps).saturating_sub(1), p * m.ps, p * m.ps + m.ps / 2] {
                        if let Some(e) = check_addr(a) {
                            return Some(e);
                        }
                    }
                }
            }
            if let Some(e) = check_addr(usize::MAX) {
                return Some(e);
            }
            None
        });
        if let Some(b) = bad {
            cx().violate("C09", "C09/model", format!("after {}", what), format!("after step {} bitmap #{} (page_size {}, byte_size {}): {}", step, bi, m.ps, m.byte_size, b));
            return;
        }
    }
}

impl Scenario for Model {
    fn name(&self) -> &'static str {
        "S-bitmap/model"
    }

    fn run(&self) -> RunInfo {
        cx().mode = Mode::Setup;
        cx().cfg.anon_atomics = true;
        let (byte_size, ps) = gen_size_ps();
        let psn = NonZeroUsize::new(ps).unwrap();
        let mut ms: Vec<MBitmap> = Vec::new();
        let first = if cx().a(12) == 0 {
            // NewBitmap::with_len uses the system page size
            use vm_memory::bitmap::NewBitmap;
            let real = AtomicBitmap::with_len(byte_size);
            MBitmap { real: Arc::new(real), pages: BTreeSet::new(), size: byte_size.div_ceil(4096), byte_size, ps: 4096 }
        } else {
            MBitmap { real: Arc::new(AtomicBitmap::new(byte_size, psn)), pages: BTreeSet::new(), size: byte_size.div_ceil(ps), byte_size, ps }
        };
        ms.push(first);
        if cx().a(3) == 0 {
            // a second bitmap of unrelated geometry (target of clone_from, among other things)
            let (b2, p2) = gen_size_ps();
            let real = if cx().a(4) == 0 && b2 <= 4096 * 400 { p2_default(b2) } else { (AtomicBitmap::new(b2, NonZeroUsize::new(p2).unwrap()), p2) };
            ms.push(MBitmap { real: Arc::new(real.0), pages: BTreeSet::new(), size: b2.div_ceil(real.1), byte_size: b2, ps: real.1 });
        }
        let nact = 1 + cx().a(3);
        let nops = 1 + cx().a(40) as usize;
        let mut log: Vec<String> = Vec::new();
        let mut effective = false;
        let mut ignored = false;
        check_model(&ms, "0", "new");
        for step in 0..nops {
            if !cx().violations.is_empty() {
                break;
            }
            let actor = cx().a(nact) as u8;
            cx().actor = actor;
            let bi = cx().a(ms.len() as u32) as usize;
            let kind = cx().a(17);
            cx().op_begin(step as u64);
            let mut what = "";
            let desc: String;
            let out = {
                let m = &mut ms[bi];
                match kind {
                    0 | 1 | 2 => {
                        what = "set range";
                        let v = gen_mview(m);
                        let (addr, len) = (gen_addr(m), gen_len(m));
                        let off = addr.wrapping_sub(v.base());
                        desc = format!("a{} #{} mark_dirty[{}]({},{})", actor, bi, v.describe(), off, len);
                        let r = catch(|| v.mark(&m.real, off, len));
                        let pages = model_range(m, v.base().wrapping_add(off), len);
                        if pages.is_empty() {
                            ignored = true
                        } else {
                            effective = true
                        }
                        m.pages.extend(pages);
                        r
                    }
                    3 => {
                        what = "set_addr_range";
                        let (addr, len) = (gen_addr(m), gen_len(m));
                        desc = format!("a{} #{} set_addr_range({},{})", actor, bi, addr, len);
                        let r = catch(|| m.real.set_addr_range(addr, len));
                        let pages = model_range(m, addr, len);
                        if pages.is_empty() {
                            ignored = true
                        } else {
                            effective = true
                        }
                        m.pages.extend(pages);
                        r
                    }
                    4 | 5 => {
                        what = "reset range";
                        let (addr, len) = (gen_addr(m), gen_len(m));
                        desc = format!("a{} #{} reset_addr_range({},{})", actor, bi, addr, len);
                        let r = catch(|| m.real.reset_addr_range(addr, len));
                        for p in model_range(m, addr, len) {
                            if m.pages.remove(&p) {
                                effective = true;
                            }
                        }
                        r
                    }
                    6 => {
                        what = "set_bit";
                        let i = if cx().a(4) == 0 { m.size + cx().a(70) as usize } else if cx().a(8) == 0 { usize::MAX - cx().a(3) as usize } else { cx().a(m.size as u32 + 1) as usize };
                        desc = format!("a{} #{} set_bit({})", actor, bi, i);
                        let r = catch(|| m.real.set_bit(i));
                        if i < m.size {
                            m.pages.insert(i);
                            effective = true;
                        } else {
                            ignored = true;
                        }
                        r
                    }
                    7 => {
                        what = "reset_bit";
                        let i = if cx().a(4) == 0 { m.size + cx().a(70) as usize } else { cx().a(m.size as u32 + 1) as usize };
                        desc = format!("a{} #{} reset_bit({})", actor, bi, i);
                        let r = catch(|| m.real.reset_bit(i));
                        if i < m.size {
                            m.pages.remove(&i);
                        } else {
                            ignored = true;
                        }
                        r
                    }
                    8 => {
                        what = "get_and_reset";
                        desc = format!("a{} #{} get_and_reset()", actor, bi);
                        let real = m.real.clone();
                        let r = catch(|| real.get_and_reset());
                        match r {
                            OpOutcome::Ok(words) => {
                                let got = bits_of(&words);
                                if got != m.pages || words.len() != m.size.div_ceil(64) {
                                    cx().violate("C09", "C09/harvest", "get_and_reset result".into(), format!("step {} {}: returned pages {:?} ({} words) but the model set is {:?} ({} pages)", step, desc, got, words.len(), m.pages, m.size));
                                }
                                if !m.pages.is_empty() {
                                    effective = true;
                                }
                                m.pages.clear();
                                OpOutcome::Ok(())
                            }
                            OpOutcome::Panic(p) => OpOutcome::Panic(p),
                            OpOutcome::Sim(s) => OpOutcome::Sim(s),
                        }
                    }
                    9 => {
                        what = "reset";
                        desc = format!("a{} #{} reset()", actor, bi);
                        let r = catch(|| m.real.reset());
                        m.pages.clear();
                        r
                    }
                    10 => {
                        what = "enlarge";
                        let add = match cx().a(6) {
                            0 => 0,
                            1 => 1,
                            2 => m.ps,
                            3 => m.ps * 64,
                            _ => cx().a((m.ps * 70).min(300_000) as u32) as usize,
                        };
                        let add = if (m.byte_size + add) / m.ps > 600 { 0 } else { add };
                        desc = format!("a{} #{} enlarge({})", actor, bi, add);
                        let r = match Arc::get_mut(&mut m.real) {
                            Some(real) => catch(|| real.enlarge(add)),
                            None => OpOutcome::Ok(()),
                        };
                        m.byte_size += add;
                        m.size = m.byte_size.div_ceil(m.ps);
                        r
                    }
                    11 => {
                        what = "clone";
                        desc = format!("a{} #{} clone() -> #{}", actor, bi, ms.len());
                        let m = &ms[bi];
                        let r = catch(|| (*m.real).clone());
                        match r {
                            OpOutcome::Ok(cl) => {
                                let nm = MBitmap { real: Arc::new(cl), pages: m.pages.clone(), size: m.size, byte_size: m.byte_size, ps: m.ps };
                                if ms.len() < 4 {
                                    ms.push(nm);
                                }
                                OpOutcome::Ok(())
                            }
                            OpOutcome::Panic(p) => OpOutcome::Panic(p),
                            OpOutcome::Sim(s) => OpOutcome::Sim(s),
                        }
                    }
                    16 => {
                        // Clone::clone_from into an existing bitmap of another geometry
                        what = "clone_from";
                        let di = cx().a(ms.len() as u32) as usize;
                        desc = format!("a{} #{}.clone_from(#{})", actor, di, bi);
                        if di == bi || Arc::strong_count(&ms[di].real) != 1 {
                            OpOutcome::Ok(())
                        } else {
                            let src = ms[bi].real.clone();
                            let (pages, size, byte_size, ps) = (ms[bi].pages.clone(), ms[bi].size, ms[bi].byte_size, ms[bi].ps);
                            let d = &mut ms[di];
                            let r = catch(|| Arc::get_mut(&mut d.real).unwrap().clone_from(&src));
                            d.pages = pages;
                            d.size = size;
                            d.byte_size = byte_size;
                            d.ps = ps;
                            r
                        }
                    }
                    12 | 13 => {
                        what = "dirty_at";
                        let v = gen_mview(m);
                        let addr = gen_addr(m);
                        let off = addr.wrapping_sub(v.base());
                        desc = format!("a{} #{} dirty_at[{}]({})", actor, bi, v.describe(), off);
                        let r = catch(|| v.dirty_at(&m.real, off));
                        match r {
                            OpOutcome::Ok(got) => {
                                let eff = v.base().wrapping_add(off);
                                let exp = eff / m.ps < m.size && m.pages.contains(&(eff / m.ps));
                                if got != exp {
                                    cx().violate("C09", "C09/slice", format!("dirty_at through {}", view_kind(&v)), format!("step {} {}: returned {} but page {} is {} in the model (page count {})", step, desc, got, eff / m.ps, if exp { "set" } else { "clear" }, m.size));
                                }
                                OpOutcome::Ok(())
                            }
                            OpOutcome::Panic(p) => OpOutcome::Panic(p),
                            OpOutcome::Sim(s) => OpOutcome::Sim(s),
                        }
                    }
                    14 => {
                        what = "unit/none bitmap";
                        desc = format!("a{} () and Option::None bitmaps", actor);
                        let addr = gen_addr(m);
                        let r = catch(|| {
                            let n: Option<RefSlice<AtomicBitmap>> = None;
                            n.mark_dirty(addr, 3);
                            let u = ();
                            u.mark_dirty(addr, 3);
                            let s = n.slice_at(addr);
                            (n.dirty_at(addr), u.dirty_at(addr), s.is_none())
                        });
                        match r {
                            OpOutcome::Ok((a, b, none)) => {
                                if a || b || !none {
                                    cx().violate("C09", "C09/trivial", "trivial bitmaps".into(), format!("step {}: Option::None / () bitmap reported dirty or produced a slice", step));
                                }
                                OpOutcome::Ok(())
                            }
                            OpOutcome::Panic(p) => OpOutcome::Panic(p),
                            OpOutcome::Sim(s) => OpOutcome::Sim(s),
                        }
                    }
                    _ => {
                        what = "is_addr_set";
                        let addr = gen_addr(m);
                        desc = format!("a{} #{} is_addr_set({})", actor, bi, addr);
                        let r = catch(|| m.real.is_addr_set(addr));
                        match r {
                            OpOutcome::Ok(got) => {
                                let exp = addr / m.ps < m.size && m.pages.contains(&(addr / m.ps));
                                if got != exp {
                                    cx().violate("C09", "C09/model", "after is_addr_set".into(), format!("step {} {}: returned {} expected {}", step, desc, got, exp));
                                }
                                OpOutcome::Ok(())
                            }
                            OpOutcome::Panic(p) => OpOutcome::Panic(p),
                            OpOutcome::Sim(s) => OpOutcome::Sim(s),
                        }
                    }
                }
            };
            cx().op_end(step as u64, 0);
            match out {
                OpOutcome::Ok(()) => {}
                OpOutcome::Panic(p) => {
                    // every bitmap operation is total: pages beyond the end are ignored and read as clean,
                    // whatever the numbers (the implementation saturates / wraps on purpose)
                    log.push(format!("{} -> PANIC {}", desc, p));
                    cx().violate("C09", "C09/panic", format!("panic in {}", what), format!("step {} {}: panicked: {} (history {:?})", step, desc, p, log));
                    break;
                }
                OpOutcome::Sim(_) => {
                    cx().discarded = true;
                    break;
                }
            }
            log.push(desc);
            check_model(&ms, &format!("{} ({})", step, log.last().unwrap()), what);
        }
        cx().actor = 0;
        // clones must be independent: mutate the last bitmap and re-check all
        if ms.len() > 1 && cx().violations.is_empty() && !cx().discarded {
            let last = ms.len() - 1;
            let m = &mut ms[last];
            if m.size > 0 {
                in_mode(Mode::Setup, || m.real.set_bit(0));
                m.pages.insert(0);
                check_model(&ms, "final (set_bit(0) on the last clone)", "clone independence");
                cx().count("probe.clone_independence_checked");
            }
        }
        let desc = if cx().trace { Some(J::obj().set("config", J::s(format!("byte_size={} page_size={} actors={}", byte_size, ps, nact))).set("history", J::strs(log.clone()))) } else { None };
        cx().mode = Mode::Oracle;
        RunInfo {
            nontrivial: effective && ignored,
            desc,
            cell: None,
        }
    }
}

fn view_kind(v: &View) -> &'static str {
    match v {
        View::Direct => "direct",
        View::Ref(_) => "RefSlice",
        View::RefRef(..) => "RefSlice of RefSlice",
        View::OptRef(_) => "Option<RefSlice>",
        View::Arc(_) => "ArcSlice",
        View::ArcArc(..) => "ArcSlice of ArcSlice",
        View::At(_) => "slice_at",
        View::AtAt(..) => "slice_at of slice_at",
    }
}
