//! S-mem: every accessor of a volatile container moves exactly the bytes it names (C04).
//! Fault-free, operation-granular configuration of the container-level simulator.

use super::{RunInfo, Scenario};
use crate::json::J;
use crate::sim::{catch, cx, in_mode, Mode, OpOutcome};
use crate::world::{bytes_of, mk, raw_read, raw_write, Arena, LocalBuf, ATOMIC_NAMES, ATOMIC_SIZES, PAGE, TYPE_NAMES, TYPE_SIZES};
use crate::{with_atomic_type, with_type};
use std::io::ErrorKind;
use std::sync::atomic::Ordering;
use vm_memory::volatile_memory::Error as VErr;
use std::cell::RefCell;
use std::collections::BTreeSet;
use std::sync::Arc;
use vm_memory::bitmap::{ArcSlice, AtomicBitmap, Bitmap, BitmapSlice, RefSlice};
use vm_memory::{ByteValued, Bytes, MmapRegion, VolatileMemory, VolatileSlice};

#[derive(Debug, Clone, PartialEq)]
pub enum Obs {
    Count(usize),
    Unit,
    Bytes(Vec<u8>),
    Oob,
    Overflow,
    TooBig,
    Misaligned,
    Partial(usize, usize),
    Io(ErrorKind),
    Panic(String),
}

pub fn obs_err(e: &VErr) -> Obs {
    match e {
        VErr::OutOfBounds { .. } => Obs::Oob,
        VErr::Overflow { .. } => Obs::Overflow,
        VErr::TooBig { .. } => Obs::TooBig,
        VErr::Misaligned { .. } => Obs::Misaligned,
        VErr::IOError(e) => Obs::Io(e.kind()),
        VErr::PartialBuffer { expected, completed } => Obs::Partial(*expected, *completed),
    }
}
pub fn obs_count(r: Result<usize, VErr>) -> Obs {
    match r {
        Ok(n) => Obs::Count(n),
        Err(e) => obs_err(&e),
    }
}
pub fn obs_unit(r: Result<(), VErr>) -> Obs {
    match r {
        Ok(()) => Obs::Unit,
        Err(e) => obs_err(&e),
    }
}

/// dirty-tracking side of a container: the bitmap its slice marks into
pub struct Track {
    pub bitmap: Arc<AtomicBitmap>,
    /// offset of the container's first byte in the bitmap's address space
    pub base_off: usize,
    pub ps: usize,
    pub flavour: &'static str,
}

impl Track {
    pub fn pages(&self) -> BTreeSet<usize> {
        in_mode(Mode::Oracle, || (0..self.bitmap.len() + 2).filter(|&i| self.bitmap.is_bit_set(i)).collect())
    }
}

pub struct Cont<BS: BitmapSlice = ()> {
    pub ptr: *mut u8,
    pub size: usize,
    pub rid: u32,
    pub model: Vec<u8>,
    pub arena: Option<Arena>,
    pub region: Option<vm_memory::GuestRegionMmap<()>>,
    pub base: VolatileSlice<'static, BS>,
    pub track: Option<Track>,
}

impl<BS: BitmapSlice> Cont<BS> {
    /// The lifetime is detached on purpose: the container outlives every view of a run.
    pub fn slice(&self) -> VolatileSlice<'static, BS> {
        self.base.clone()
    }
}

thread_local! {
    /// (container, offset, length) ranges the operation in progress wrote, per the model
    static WROTE: RefCell<Vec<(usize, usize, usize)>> = const { RefCell::new(Vec::new()) };
}

thread_local! {
    /// the operation in progress failed part-way (soundness only, no precision demand)
    static PARTIAL: std::cell::Cell<bool> = const { std::cell::Cell::new(false) };
}

fn note_w(ci: usize, lo: usize, hi: usize) {
    if hi > lo {
        WROTE.with(|w| w.borrow_mut().push((ci, lo, hi - lo)));
    }
}

fn pat(stamp: u32, i: usize) -> u8 {
    (stamp.wrapping_mul(31).wrapping_add(i as u32 * 7).wrapping_add(1) & 0xff) as u8
}

pub fn new_cont(rid: u32) -> Cont {
    let c = cx();
    let size = match c.a(8) {
        0 => 0,
        1 => 1 + c.a(8) as usize,
        2 => 8,
        3 => 9 + c.a(8) as usize,
        4 => 64,
        _ => c.a(300) as usize,
    };
    if c.a(4) == 0 && size > 0 {
        // anonymous MmapRegion used as a container (set-up mode: mapping recorded, nothing injected)
        // a guest region (guest base chosen so that region offsets and guest addresses differ)
        let region = in_mode(Mode::Setup, || crate::world::anon_region::<()>(size).map(|r| vm_memory::GuestRegionMmap::new(r, vm_memory::GuestAddress(0x7000)).expect("guest region"))).expect("anonymous mmap");
        let ptr = region.as_ptr();
        cx().add_range(ptr as usize, size.div_ceil(PAGE) * PAGE, rid, true);
        let model: Vec<u8> = (0..size).map(|i| pat(1000 + rid, i)).collect();
        raw_write(ptr, &model);
        // SAFETY: the region is dropped only at the end of the run, after all views.
        let base = unsafe { std::mem::transmute::<VolatileSlice<'_, ()>, VolatileSlice<'static, ()>>(region.as_volatile_slice()) };
        Cont { ptr, size, rid, model, arena: None, region: Some(region), base, track: None }
    } else {
        let arena = Arena::get(2);
        let residue = c.a(8) as usize;
        let at_end = c.a(2) == 0;
        let ptr = arena.place(size, residue, at_end);
        cx().add_range(arena.data() as usize, arena.data_len(), rid, true);
        let model: Vec<u8> = (0..size).map(|i| pat(1000 + rid, i)).collect();
        raw_write(ptr, &model);
        // SAFETY: the arena outlives the container and the range is inside its data pages.
        let base = unsafe { VolatileSlice::new(ptr, size) };
        Cont { ptr, size, rid, model, arena: Some(arena), region: None, base, track: None }
    }
}

/// offset of the container's first byte inside its registered range
pub fn cont_base_in_range<BS: BitmapSlice>(c: &Cont<BS>) -> usize {
    match &c.arena {
        Some(a) => c.ptr as usize - a.data() as usize,
        None => 0,
    }
}

/// A view derived from the container by a chain of derivations: (offset, length) relative to it.
#[derive(Clone, Debug)]
pub struct ViewSpec {
    pub steps: Vec<(u8, usize, usize)>,
    pub off: usize,
    pub len: usize,
}

pub fn gen_view(size: usize) -> ViewSpec {
    let c = cx();
    let mut v = ViewSpec { steps: Vec::new(), off: 0, len: size };
    let depth = match c.a(4) {
        0 => 0,
        1 => 1,
        2 => 2,
        _ => 3 + c.a(2) as usize,
    };
    for _ in 0..depth {
        let o = match c.a(4) {
            0 => 0,
            1 => v.len,
            _ => c.a(v.len as u32 + 1) as usize,
        };
        let rem = v.len - o;
        let n = match c.a(4) {
            0 => rem,
            1 => 0,
            _ => c.a(rem as u32 + 1) as usize,
        };
        let mut kind = c.a(9) as u8;
        if v.steps.is_empty() && c.a(3) == 0 {
            kind = 9; // the container's own VolatileMemory::get_slice (MmapRegion::get_slice for a region)
        }
        match kind {
            9 => {
                v.steps.push((9, o, n));
                v.off += o;
                v.len = n;
            }
            0 | 5 => {
                v.steps.push((0, o, n)); // subslice / get_slice
                v.off += o;
                v.len = n;
            }
            1 => {
                v.steps.push((1, o, 0)); // offset
                v.off += o;
                v.len = rem;
            }
            2 => {
                v.steps.push((2, o, 0)); // split_at .0
                v.len = o;
            }
            3 => {
                v.steps.push((3, o, 0)); // split_at .1
                v.off += o;
                v.len = rem;
            }
            4 => {
                v.steps.push((4, o, n)); // get_array_ref::<u8>().to_slice()
                v.off += o;
                v.len = n;
            }
            6 => {
                v.steps.push((6, o, n / 4)); // get_array_ref::<u32>().to_slice()
                v.off += o;
                v.len = (n / 4) * 4;
            }
            7 if rem >= 8 => {
                v.steps.push((7, o, 0)); // get_ref::<u64>().to_slice()
                v.off += o;
                v.len = 8;
            }
            _ => {
                v.steps.push((8, o, n)); // VolatileArrayRef::<u8>::from(subslice).to_slice()
                v.off += o;
                v.len = n;
            }
        }
    }
    v
}

pub fn derive<BS: BitmapSlice>(base: VolatileSlice<'static, BS>, spec: &ViewSpec) -> Result<VolatileSlice<'static, BS>, VErr> {
    let mut s = base;
    for &(k, o, n) in &spec.steps {
        s = match k {
            0 => s.subslice(o, n)?,
            1 => s.offset(o)?,
            2 => s.split_at(o)?.0,
            3 => s.split_at(o)?.1,
            5 => s.subslice(o, n)?,
            9 => s.get_slice(o, n).map(|x| unsafe { std::mem::transmute::<VolatileSlice<'_, BS>, VolatileSlice<'static, BS>>(x) })?,
            6 => {
                let a = s.get_array_ref::<u32>(o, n)?;
                // SAFETY: as below.
                unsafe { std::mem::transmute::<VolatileSlice<'_, BS>, VolatileSlice<'static, BS>>(a.to_slice()) }
            }
            7 => {
                let r = s.get_ref::<u64>(o)?;
                // SAFETY: as below.
                unsafe { std::mem::transmute::<VolatileSlice<'_, BS>, VolatileSlice<'static, BS>>(r.to_slice()) }
            }
            8 => {
                let a = vm_memory::VolatileArrayRef::<u8, BS>::from(s.subslice(o, n)?);
                a.to_slice()
            }
            _ => {
                let a = s.get_array_ref::<u8>(o, n)?;
                // SAFETY: the underlying memory outlives the run; only the borrow of `s` is detached.
                unsafe { std::mem::transmute::<VolatileSlice<'_, BS>, VolatileSlice<'static, BS>>(a.to_slice()) }
            }
        };
    }
    Ok(s)
}

/// like `derive`, but a leading container-level step goes through the region's own get_slice
fn derive_from_container<BS: BitmapSlice>(c: &Cont<BS>, base: VolatileSlice<'static, BS>, spec: &ViewSpec) -> Result<VolatileSlice<'static, BS>, VErr> {
    if let (Some(r), Some(&(9, o, n))) = (&c.region, spec.steps.first()) {
        // resolves (through Deref) to `impl VolatileMemory for MmapRegion`
        let first = r.get_slice(o, n)?;
        // SAFETY: the region outlives the run; BS is () for region containers.
        let first: VolatileSlice<'static, BS> = unsafe { std::mem::transmute_copy(&first) };
        let rest = ViewSpec { steps: spec.steps[1..].to_vec(), off: spec.off, len: spec.len };
        return derive(first, &rest);
    }
    derive(base, spec)
}

/// boundary-biased offset into a view of length `l`
pub fn gen_off(l: usize) -> usize {
    let c = cx();
    match c.a(8) {
        0 => 0,
        1 => l,
        2 => l.saturating_sub(1),
        3 => l + 1 + c.a(4) as usize,
        4 => l.saturating_sub(c.a(10) as usize),
        _ => c.a(l as u32 + 1) as usize,
    }
}

/// boundary-biased non-zero buffer length (both sides of 8 and of the container length)
pub fn gen_len(l: usize) -> usize {
    let c = cx();
    (match c.a(10) {
        0 => 1,
        1 => 8,
        2 => 9,
        3 => 7,
        4 => l,
        5 => l + 1 + c.a(3) as usize,
        6 => 2 + c.a(3) as usize * 2,
        7 => 16 + c.a(20) as usize,
        _ => 1 + c.a((l + 10) as u32) as usize,
    })
    .max(1)
}

struct Judge {
    step: usize,
    desc: String,
    kind: &'static str,
}

impl Judge {
    fn expect(&self, got: &Obs, exp: &Obs) {
        if matches!(exp, Obs::Partial(..)) || matches!(got, Obs::Partial(..)) {
            PARTIAL.with(|p| p.set(true));
        }
        if got != exp {
            cx().violate("C04", "C04/result", format!("{} result", self.kind), format!("step {} {}: returned {:?}, the byte-array model says {:?}", self.step, self.desc, got, exp));
        }
    }
}

/// a source that delivers its data a few bytes per call (as a pipe or socket does)
struct Trickle<'a> {
    data: &'a [u8],
    chunk: usize,
}

impl vm_memory::ReadVolatile for Trickle<'_> {
    fn read_volatile<B: BitmapSlice>(&mut self, buf: &mut VolatileSlice<B>) -> Result<usize, VErr> {
        let n = buf.len().min(self.chunk).min(self.data.len());
        let w = buf.write(&self.data[..n], 0)?;
        self.data = &self.data[w..];
        Ok(w)
    }
}

pub struct Mem;
pub static MEM: Mem = Mem;

fn with_allowed<R>(rid: u32, ranges: &[(usize, usize)], f: impl FnOnce() -> R) -> R {
    cx().allowed = ranges.iter().map(|&(lo, hi)| (rid, lo, hi)).collect();
    if cx().allowed.is_empty() {
        cx().allowed.push((rid, 0, 0));
    }
    cx().stray = None;
    let r = f();
    cx().allowed.clear();
    r
}

fn flat<T>(o: OpOutcome<T>, to: impl FnOnce(T) -> Obs) -> Obs {
    match o {
        OpOutcome::Ok(v) => to(v),
        OpOutcome::Panic(m) => Obs::Panic(m),
        OpOutcome::Sim(s) => Obs::Panic(format!("{:?}", s)),
    }
}

impl Scenario for Mem {
    fn name(&self) -> &'static str {
        "S-mem"
    }

    fn run(&self) -> RunInfo {
        run_mem::<()>(new_cont, false)
    }
}

/// S-dirty/slice: the same accessor histories on containers whose slices carry a bitmap slice
/// (RefSlice, nested RefSlice, ArcSlice, Option<RefSlice>) at a non-zero base offset.
pub struct DirtySlice;
pub static DIRTY_SLICE: DirtySlice = DirtySlice;

impl Scenario for DirtySlice {
    fn name(&self) -> &'static str {
        "S-dirty/slice"
    }
    fn run(&self) -> RunInfo {
        cx().cfg.anon_atomics = true;
        match cx().a(4) {
            0 => run_mem::<RefSlice<'static, AtomicBitmap>>(|rid| new_tracked(rid, "RefSlice", |bm, off| RefSlice::new(bm, off)), true),
            1 => run_mem::<RefSlice<'static, AtomicBitmap>>(|rid| new_tracked(rid, "RefSlice of RefSlice", |bm, off| RefSlice::new(bm, off / 2).slice_at(off - off / 2)), true),
            2 => run_mem::<ArcSlice<AtomicBitmap>>(|rid| new_tracked_arc(rid), true),
            _ => run_mem::<Option<RefSlice<'static, AtomicBitmap>>>(|rid| new_tracked(rid, "Option<RefSlice>", |bm, off| Some(RefSlice::new(bm, off))), true),
        }
    }
}


/// S-dirty/race: one writer performing tracked writes through every accessor while a harvester
/// (the VMM's migration thread) fetches-and-clears the bitmap at scheduler-chosen instants and
/// copies the pages it was told about. The scheduler may switch before every primitive guest
/// access, before every bitmap word operation and while a read(2) is blocked. Oracle = migration
/// convergence: after the writer is done and one last harvest was copied, the copy equals guest
/// memory; a byte that changed after its page was last reported must still be reported.
pub struct DirtyRace;
pub static DIRTY_RACE: DirtyRace = DirtyRace;

impl Scenario for DirtyRace {
    fn name(&self) -> &'static str {
        "S-dirty/race"
    }
    fn run(&self) -> RunInfo {
        cx().cfg.anon_atomics = true;
        match cx().a(3) {
            0 => run_race::<RefSlice<'static, AtomicBitmap>>(|rid| new_tracked(rid, "RefSlice", |bm, off| RefSlice::new(bm, off))),
            1 => run_race::<ArcSlice<AtomicBitmap>>(new_tracked_arc),
            _ => run_race::<Option<RefSlice<'static, AtomicBitmap>>>(|rid| new_tracked(rid, "Option<RefSlice>", |bm, off| Some(RefSlice::new(bm, off)))),
        }
    }
}

fn run_race<BS: BitmapSlice>(mk: impl Fn(u32) -> Cont<BS>) -> RunInfo {
    use crate::sim::{run_concurrent, Policy};
    use std::cell::RefCell;
    cx().mode = Mode::Setup;
    let mut conts = vec![mk(0)];
    let (ptr, size) = (conts[0].ptr, conts[0].size);
    let (bitmap, base_off, ps, flavour) = {
        let t = conts[0].track.as_ref().unwrap();
        (t.bitmap.clone(), t.base_off, t.ps, t.flavour)
    };
    in_mode(Mode::Setup, || bitmap.reset());
    // the migration target starts as a full copy
    let dest = RefCell::new(raw_read(ptr, size));
    let harvests = RefCell::new(Vec::<String>::new());
    let nops = 1 + cx().a(3) as usize;
    let nharv = 1 + cx().a(3) as usize;
    // writer program, drawn up front so that the interleaving does not decide it
    let mut prog = Vec::new();
    for _ in 0..nops {
        let spec = gen_view(size);
        let mut kind = cx().a(25);
        if kind == 20 {
            kind = 0; // writes through handed-out references are exempt from tracking
        }
        let fd_read = cx().a(4) == 0;
        let again = cx().a(3) == 0;
        let spec2 = ViewSpec { steps: spec.steps.clone(), off: spec.off, len: spec.len };
        prog.push((spec, kind, fd_read, cx().a(2) == 0));
        if again {
            // the same place is written again through another accessor (its page is dirty by then,
            // unless a harvest got in between)
            let k2 = [18u32, 18, 8, 6, 0][cx().a(5) as usize];
            prog.push((spec2, k2, false, false));
        }
    }
    // now and then a second writer thread issues plain buffer writes on the same container (two
    // markers may then meet on one bitmap word)
    let second_writer_prog: Vec<(usize, usize)> = if cx().a(2) == 0 { (0..1 + cx().a(3)).map(|_| (cx().a(size as u32) as usize, 1 + cx().a(16) as usize)).collect() } else { Vec::new() };
    let base2 = conts[0].slice();
    let (rid2, cbase2) = (conts[0].rid, cont_base_in_range(&conts[0]));
    // now and then a second clearing thread resets sub-ranges of the bitmap and copies the pages of
    // the range afterwards (clear, then copy: the order that loses nothing)
    let reset_prog: Vec<(usize, usize)> = if cx().a(3) == 0 {
        let bs = in_mode(Mode::Oracle, || bitmap.byte_size());
        (0..1 + cx().a(2)).map(|_| (cx().a(bs as u32 + 1) as usize, 1 + cx().a((4 * ps).min(600) as u32) as usize)).collect()
    } else {
        Vec::new()
    };
    {
        let c = cx();
        c.cfg.yield_atomic = true;
        c.cfg.yield_access = true;
        c.cfg.yield_sys = true;
        c.sched.budget = 60_000;
        c.sched.policy = match c.a(5) {
            0 => Policy::Uniform,
            1 => Policy::Sticky(4, 5),
            2 => Policy::Sticky(19, 20),
            3 => Policy::Pct(1),
            _ => Policy::Pct(2),
        };
    }
    let log = RefCell::new(Vec::<String>::new());
    let knames = RefCell::new(Vec::<&'static str>::new());
    // (event index at start, at end, pages the operation may have written, operation name)
    let wops = RefCell::new(Vec::<(usize, usize, BTreeSet<usize>, &'static str)>::new());
    // (event index at start, at end, pages reported)
    // (event index at start, at end, pages, true = a harvest that reported them / false = a reset that cleared them)
    let hrecs = RefCell::new(Vec::<(usize, usize, BTreeSet<usize>, bool)>::new());
    let npages = in_mode(Mode::Oracle, || bitmap.len());
    let (mut ok_ops, mut rejected) = (0u32, 0u32);
    let copy_pages = |words: &[u64], dest: &mut Vec<u8>| -> usize {
        let now = raw_read(ptr, size);
        let mut n = 0;
        for i in 0..size {
            let p = (base_off + i) / ps;
            if words.get(p / 64).map(|w| w >> (p % 64) & 1 == 1).unwrap_or(false) {
                dest[i] = now[i];
                n += 1;
            }
        }
        n
    };
    {
        let conts_ref = &mut conts;
        let (log2, dest2, harv2, bm2, kn2, wops2, hrecs2) = (&log, &dest, &harvests, &bitmap, &knames, &wops, &hrecs);
        let (ok2, rej2) = (&mut ok_ops, &mut rejected);
        let prog2 = &prog;
        let wbody: Box<dyn FnOnce() + '_> = Box::new(move || {
            for (step, (spec, kind, fd_read, exact)) in prog2.iter().enumerate() {
                WROTE.with(|w| w.borrow_mut().clear());
                PARTIAL.with(|p| p.set(false));
                let t0 = cx().events.len();
                cx().op_begin(step as u64);
                if *fd_read {
                    // a descriptor read into the tracked view; the scheduler may run the harvester
                    // while the read is blocked in the kernel
                    let base_slice = conts_ref[0].slice();
                    if let Ok(view) = derive_from_container(&conts_ref[0], base_slice, spec) {
                        let n = 1 + (spec.len.max(1) * 7 / 8);
                        let data: Vec<u8> = (0..n + 8).map(|i| pat(step as u32 + 90, i)).collect();
                        let mut f = in_mode(Mode::Setup, || {
                            let f = crate::gmworld::memfd(0);
                            use std::os::fd::AsRawFd;
                            // SAFETY: our own descriptor and buffer.
                            unsafe {
                                libc::write(f.as_raw_fd(), data.as_ptr() as *const libc::c_void, data.len());
                                libc::lseek(f.as_raw_fd(), 0, libc::SEEK_SET);
                            }
                            f
                        });
                        let r = with_allowed(conts_ref[0].rid, &[(cont_base_in_range(&conts_ref[0]) + spec.off, cont_base_in_range(&conts_ref[0]) + spec.off + spec.len)], || if *exact { flat(catch(|| view.read_exact_volatile_from(0, &mut f, n.min(spec.len))), obs_unit) } else { flat(catch(|| view.read_volatile_from(0, &mut f, n)), obs_count) });
                        log2.borrow_mut().push(format!("writer: view{:?}(+{},{}) {}(File, {}) -> {:?}", spec.steps, spec.off, spec.len, if *exact { "read_exact_volatile_from" } else { "read_volatile_from" }, n, r));
                        kn2.borrow_mut().push(if *exact { "read_exact_volatile_from(File)" } else { "read_volatile_from(File)" });
                        // anything inside the view may have been written (and is marked on failure)
                        note_w(0, spec.off, spec.off + spec.len);
                        *ok2 += 1;
                    }
                } else {
                    let (desc, kname) = MEM.one_op(conts_ref, 0, spec, *kind, step as u32 + 1, step, ok2, rej2);
                    kn2.borrow_mut().push(kname);
                    log2.borrow_mut().push(format!("writer: view{:?}(+{},{}) {}", spec.steps, spec.off, spec.len, desc));
                }
                cx().op_end(step as u64, 0);
                let mut pages = BTreeSet::new();
                if PARTIAL.with(|p| p.get()) {
                    // a request that failed part-way: precision is judged by the sequential parts only
                    pages.extend(0..npages);
                }
                for &(_, off, len) in WROTE.with(|w| w.borrow().clone()).iter() {
                    for p in (base_off + off) / ps..=(base_off + off + len - 1) / ps {
                        pages.insert(p);
                    }
                }
                let kn = kn2.borrow().last().copied().unwrap_or("");
                wops2.borrow_mut().push((t0, cx().events.len(), pages, kn));
            }
        });
        let hbody: Box<dyn FnOnce() + '_> = Box::new(move || {
            for h in 0..nharv {
                // (a simulated budget abort raised at this scheduling point must not leave the coroutine)
                if !matches!(catch(crate::sim::yield_point), OpOutcome::Ok(())) {
                    break;
                }
                let h0 = cx().events.len();
                cx().op_begin(100 + h as u64);
                let words = match catch(|| bm2.get_and_reset()) {
                    OpOutcome::Ok(w) => w,
                    _ => Vec::new(),
                };
                // the pages reported are copied at once (the earliest a VMM could do it)
                let n = in_mode(Mode::Oracle, || copy_pages(&words, &mut dest2.borrow_mut()));
                cx().op_end(100 + h as u64, 0);
                let rep: BTreeSet<usize> = (0..words.len() * 64).filter(|p| words[p / 64] >> (p % 64) & 1 == 1).collect();
                hrecs2.borrow_mut().push((h0, cx().events.len(), rep, true));
                harv2.borrow_mut().push(format!("harvest {}: {} byte(s) copied", h, n));
                log2.borrow_mut().push(format!("harvester: get_and_reset() reported {} dirty byte(s) of the container", n));
            }
        });
        let (log3, kn3, wops3, prog3) = (&log, &knames, &wops, &second_writer_prog);
        let w2body: Box<dyn FnOnce() + '_> = Box::new(move || {
            for (k, &(off, len)) in prog3.iter().enumerate() {
                let len = len.min(size.saturating_sub(off));
                if len == 0 {
                    continue;
                }
                let data: Vec<u8> = (0..len).map(|i| pat(77 + k as u32, i) ^ 0x3C).collect();
                let t0 = cx().events.len();
                cx().op_begin(200 + k as u64);
                let r = with_allowed(rid2, &[(cbase2 + off, cbase2 + off + len)], || flat(catch(|| base2.write(&data, off)), obs_count));
                cx().op_end(200 + k as u64, 0);
                log3.borrow_mut().push(format!("second writer: write(buf[{}], {}) -> {:?}", len, off, r));
                kn3.borrow_mut().push("write (second writer)");
                let pages: BTreeSet<usize> = ((base_off + off) / ps..=(base_off + off + len - 1) / ps).collect();
                wops3.borrow_mut().push((t0, cx().events.len(), pages, "write (second writer)"));
            }
        });
        let (log4, dest4, hrecs4, bm4, rprog4) = (&log, &dest, &hrecs, &bitmap, &reset_prog);
        let rbody: Box<dyn FnOnce() + '_> = Box::new(move || {
            for (k, &(a, l)) in rprog4.iter().enumerate() {
                if !matches!(catch(crate::sim::yield_point), OpOutcome::Ok(())) {
                    break;
                }
                let h0 = cx().events.len();
                cx().op_begin(300 + k as u64);
                let _ = catch(|| bm4.reset_addr_range(a, l));
                // the pages of the range are copied after they were cleared, dirty or not
                let cleared: BTreeSet<usize> = (a / ps..=(a + l - 1) / ps).filter(|&p| p < npages).collect();
                in_mode(Mode::Oracle, || {
                    let now = raw_read(ptr, size);
                    let mut d = dest4.borrow_mut();
                    for i in 0..size {
                        if cleared.contains(&((base_off + i) / ps)) {
                            d[i] = now[i];
                        }
                    }
                });
                cx().op_end(300 + k as u64, 0);
                // for the precision oracle a reset is a clear like a harvest (without a report)
                hrecs4.borrow_mut().push((h0, cx().events.len(), cleared, false));
                log4.borrow_mut().push(format!("resetter: reset_addr_range({}, {}) and copy of its pages", a, l));
            }
        });
        let mut bodies = vec![wbody, hbody];
        if !second_writer_prog.is_empty() {
            cx().count("probe.two_writers_and_a_harvester");
            bodies.push(w2body);
        }
        if !reset_prog.is_empty() {
            cx().count("probe.harvester_and_resetter");
            bodies.push(rbody);
        }
        run_concurrent(bodies);
    }
    let c = cx();
    c.count_n("sim.steps", c.sched.steps);
    let inop = c.sched.inop_switches;
    if c.sched.over_budget {
        c.harness_error = Some("step budget exceeded in S-dirty/race".into());
    }
    cx().mode = Mode::Setup;
    cx().cfg.yield_atomic = false;
    cx().cfg.yield_access = false;
    cx().cfg.yield_sys = false;
    // the last round of the migration: everything still marked is copied
    let words = in_mode(Mode::Oracle, || bitmap.get_and_reset());
    copy_pages(&words, &mut dest.borrow_mut());
    {
        // precision under the race (C16): a page is reported only if some operation that may have
        // written it was still running, or ran, after the previous report of that page began
        let fin: BTreeSet<usize> = (0..words.len() * 64).filter(|p| words[p / 64] >> (p % 64) & 1 == 1).collect();
        let mut clears = hrecs.borrow().clone();
        clears.push((usize::MAX - 1, usize::MAX - 1, fin, true));
        let wops = wops.borrow();
        'outer: for (ci, (h0, _h1, rep, reports)) in clears.iter().enumerate() {
            if !*reports {
                continue;
            }
            for &p in rep {
                // the latest clear of p (an earlier report or a reset) that was over before this report began
                let since = clears.iter().enumerate().filter(|(k, c)| *k != ci && c.1 <= *h0 && c.2.contains(&p)).map(|(_, c)| c.0).max().unwrap_or(0);
                let justified = wops.iter().any(|(_t0, t1, pages, _)| pages.contains(&p) && *t1 > since);
                if !justified {
                    let line = log.borrow().join(" | ");
                    cx().violate("C16", "C16/spurious-after-harvest", format!("{} racing with a harvest through {}", knames.borrow().join(" + "), flavour), format!("{}: page {} (page size {}, slice base offset {}) was reported dirty although no operation wrote it since it was last reported or reset", line, p, ps, base_off));
                    break 'outer;
                }
            }
        }
    }
    let now = raw_read(ptr, size);
    let d = dest.borrow();
    if let Some(i) = (0..size).find(|&i| now[i] != d[i]) {
        let line = log.borrow().join(" | ");
        let kn = knames.borrow().join(" + ");
        cx().violate("C05", "C05/stale-after-harvest", format!("{} racing with a harvest through {}", kn, flavour), format!("{}: byte {} of the container (page {}, page size {}, slice base offset {}) is {:#04x} but the copy assembled from the harvests holds {:#04x}: it changed after its page was last reported and is not reported dirty", line, i, (base_off + i) / ps, ps, base_off, now[i], d[i]));
    }
    drop(d);
    let desc = if cx().trace { Some(J::obj().set("container", J::s(format!("size={} bitmap={} page_size={} base_offset={}", size, flavour, ps, base_off))).set("history", J::strs(log.borrow().clone()))) } else { None };
    for c in conts {
        cx().remove_range(c.rid);
        if let Some(a) = c.arena {
            a.release();
        }
    }
    cx().mode = Mode::Oracle;
    RunInfo { nontrivial: inop > 0 && ok_ops > 0, desc, cell: None }
}

fn tracked_geometry(size: usize) -> (usize, usize, usize) {
    let c = cx();
    let ps = c.pick(&[1usize, 2, 3, 16, 64, 4096, 7]);
    let ps = if c.a(8) == 0 { size + 1 + c.a(50) as usize } else { ps };
    let base_off = match c.a(4) {
        0 => 0,
        1 => ps * (1 + c.a(3) as usize),
        _ => 1 + c.a(200) as usize,
    };
    // now and then the view sits beyond 4 GiB of the tracked object (a window into a large region):
    // large pages keep the bitmap small
    let (ps, base_off) = if c.a(40) == 0 {
        c.count("probe.tracked_view_based_beyond_4_gib");
        let ps = [1usize << 16, 1 << 20, (1 << 16) + 4096][c.a(3) as usize];
        (ps, (1usize << 32) + [0usize, 1, 4096, 65535, 65536, 0x7010][c.a(6) as usize] + (c.a(3) as usize) * (1 << 32))
    } else {
        (ps, base_off)
    };
    let cover = base_off + size + c.a(2 * ps.min(300) as u32) as usize;
    (ps, base_off, cover)
}

fn tracked_bitmap(cover: usize, ps: usize) -> AtomicBitmap {
    if cover > u32::MAX as usize {
        AtomicBitmap::new(cover, std::num::NonZeroUsize::new(ps).unwrap())
    } else {
        crate::world::grown_bitmap(cover, ps)
    }
}

fn new_tracked<BS: BitmapSlice>(rid: u32, flavour: &'static str, mk: impl Fn(&'static AtomicBitmap, usize) -> BS) -> Cont<BS> {
    let plain = new_arena_cont(rid);
    let (ps, base_off, cover) = tracked_geometry(plain.size);
    let bitmap = Arc::new(tracked_bitmap(cover, ps));
    // SAFETY: the Arc is kept in the container's Track for the whole run.
    let bref: &'static AtomicBitmap = unsafe { &*Arc::as_ptr(&bitmap) };
    // SAFETY: arena memory outlives the container.
    let base = unsafe { VolatileSlice::with_bitmap(plain.ptr, plain.size, mk(bref, base_off), None) };
    Cont { ptr: plain.ptr, size: plain.size, rid, model: plain.model, arena: plain.arena, region: None, base, track: Some(Track { bitmap, base_off, ps, flavour }) }
}

fn new_tracked_arc(rid: u32) -> Cont<ArcSlice<AtomicBitmap>> {
    let plain = new_arena_cont(rid);
    let (ps, base_off, cover) = tracked_geometry(plain.size);
    let bitmap = Arc::new(tracked_bitmap(cover, ps));
    // SAFETY: arena memory outlives the container.
    let base = unsafe { VolatileSlice::with_bitmap(plain.ptr, plain.size, ArcSlice::new(bitmap.clone(), base_off), None) };
    Cont { ptr: plain.ptr, size: plain.size, rid, model: plain.model, arena: plain.arena, region: None, base, track: Some(Track { bitmap, base_off, ps, flavour: "ArcSlice" }) }
}

fn new_arena_cont(rid: u32) -> Cont<()> {
    loop {
        let c = new_cont(rid);
        if c.arena.is_some() {
            return c;
        }
        cx().remove_range(rid);
        drop(c);
    }
}

fn run_mem<BS: BitmapSlice>(mk: impl Fn(u32) -> Cont<BS>, tracked: bool) -> RunInfo {
    {
        cx().mode = Mode::Setup;
        let mut conts = vec![mk(0)];
        if cx().a(3) == 0 {
            conts.push(mk(1));
        }
        let nact = 1 + cx().a(3);
        let nops = 1 + cx().a(30) as usize;
        let mut log: Vec<String> = Vec::new();
        let mut ok_ops = 0;
        let mut rejected = 0;
        // pages owed a dirty mark: written since the last reset that covered them (tracked containers)
        let mut owed: Vec<BTreeSet<usize>> = vec![BTreeSet::new(); conts.len()];
        for step in 0..nops {
            if !cx().violations.is_empty() {
                break;
            }
            let actor = cx().a(nact) as u8;
            cx().actor = actor;
            // bitmap actor between operations
            if tracked && cx().a(5) == 0 {
                let bi = cx().a(conts.len() as u32) as usize;
                let t = conts[bi].track.as_ref().unwrap();
                let what = cx().a(3);
                let (a, l) = (cx().a(t.bitmap.byte_size() as u32 + 1) as usize, 1 + cx().a(300) as usize);
                in_mode(Mode::Setup, || match what {
                    0 => t.bitmap.reset(),
                    1 => t.bitmap.reset_addr_range(a, l),
                    _ => drop(t.bitmap.get_and_reset()),
                });
                // history form of C05: a page written since the last reset that covered it is still dirty
                if what == 1 {
                    for p in a / t.ps..=(a + l - 1) / t.ps {
                        owed[bi].remove(&p);
                    }
                } else {
                    owed[bi].clear();
                }
                let now_pages = t.pages();
                if let Some(p) = owed[bi].iter().find(|p| !now_pages.contains(p)) {
                    cx().violate("C05", "C05/reset-cleared-too-much", format!("a reset cleared a page outside its range ({})", t.flavour), format!("step {}: {} on the bitmap of container {} (page size {}): page {} was written after the last reset that covered it and is not covered by this one, but it is clean now", step, [format!("reset()"), format!("reset_addr_range({}, {})", a, l), format!("get_and_reset()")][what as usize], bi, t.ps, p));
                    break;
                }
            }
            let ci = cx().a(conts.len() as u32) as usize;
            let spec = gen_view(conts[ci].size);
            let mut kind = cx().a(29);
            if (25..=26).contains(&kind) && conts[ci].region.is_none() {
                kind = cx().a(25);
            }
            let stamp = step as u32 + 1;
            let before_pages: Vec<BTreeSet<usize>> = if tracked { conts.iter().map(|c| c.track.as_ref().unwrap().pages()).collect() } else { Vec::new() };
            let before_bytes: Vec<Vec<u8>> = if tracked { conts.iter().map(|c| raw_read(c.ptr, c.size)).collect() } else { Vec::new() };
            WROTE.with(|w| w.borrow_mut().clear());
            PARTIAL.with(|p| p.set(false));
            cx().mode = Mode::Actor;
            cx().op_begin(step as u64);
            let (desc, kname) = MEM.one_op(&mut conts, ci, &spec, kind, stamp, step, &mut ok_ops, &mut rejected);
            cx().op_end(step as u64, 0);
            cx().mode = Mode::Setup;
            log.push(format!("a{} c{} view{:?}(+{},{}) {}", actor, ci, spec.steps, spec.off, spec.len, desc));
            // frame: contents, canaries, stray touches
            if let Some(s) = cx().stray.take() {
                cx().violate("C04", "C04/stray-touch", format!("{} stray touch", kname), format!("step {} {}: {}", step, log.last().unwrap(), s));
            }
            for (k, c) in conts.iter().enumerate() {
                let now = raw_read(c.ptr, c.size);
                if now != c.model {
                    let i = now.iter().zip(c.model.iter()).position(|(a, b)| a != b).unwrap_or(0);
                    cx().violate("C04", "C04/contents", format!("{} contents", kname), format!("step {} {}: container {} byte {} is {:#04x}, the model says {:#04x} (size {})", step, log.last().unwrap(), k, i, now[i], c.model[i], c.size));
                    break;
                }
                if let Some(a) = &c.arena {
                    if let Some(i) = a.canaries_intact(c.ptr, c.size) {
                        cx().violate("C04", "C04/frame", format!("{} frame", kname), format!("step {} {}: byte at arena offset {} next to container {} was overwritten", step, log.last().unwrap(), i, k));
                        break;
                    }
                } else if let Some(r) = &c.region {
                    let tail = raw_read(unsafe { r.as_ptr().add(c.size) }, c.size.div_ceil(PAGE) * PAGE - c.size);
                    if tail.iter().any(|&b| b != 0) {
                        cx().violate("C04", "C04/frame", format!("{} frame", kname), format!("step {} {}: a byte after the end of region container {} was overwritten", step, log.last().unwrap(), k));
                        break;
                    }
                }
            }
            if !tracked {
                continue;
            }
            // ---- dirty tracking oracles (C05 sound, C16 precise) -------------------------------------
            let wrote = WROTE.with(|w| w.borrow().clone());
            let line = log.last().unwrap().clone();
            for (k, c) in conts.iter().enumerate() {
                let t = c.track.as_ref().unwrap();
                let after = t.pages();
                let now = raw_read(c.ptr, c.size);
                for i in 0..c.size {
                    if now[i] != before_bytes[k][i] {
                        owed[k].insert((t.base_off + i) / t.ps);
                    }
                    if now[i] != before_bytes[k][i] && !after.contains(&((t.base_off + i) / t.ps)) {
                        cx().violate("C05", "C05/unmarked-write", format!("{} through {} left a changed byte clean", kname, t.flavour), format!("step {} {}: byte {} of container {} changed but page {} (page size {}, slice base offset {}) is clean", step, line, i, k, (t.base_off + i) / t.ps, t.ps, t.base_off));
                        break;
                    }
                }
                let mut want = before_pages[k].clone();
                for &(ci2, off, len) in &wrote {
                    if ci2 == k {
                        for p in (t.base_off + off) / t.ps..=(t.base_off + off + len - 1) / t.ps {
                            if p < t.bitmap.len() {
                                want.insert(p);
                            }
                        }
                    }
                }
                let partial = PARTIAL.with(|p| p.get());
                // a request that failed part-way owes marks only to C05, but even then no page that
                // overlaps none of the bytes it wrote may become dirty
                if after != want && (!partial || !after.is_subset(&want)) {
                    let extra: Vec<_> = after.difference(&want).collect();
                    if !extra.is_empty() {
                        cx().violate("C16", "C16/extra-mark", format!("{} through {} marked too much", kname, t.flavour), format!("step {} {}: container {} pages {:?} became dirty although the operation wrote only {:?} (page size {}, slice base offset {})", step, line, k, extra, wrote, t.ps, t.base_off));
                    } else {
                        let missing: Vec<_> = want.difference(&after).collect();
                        cx().violate("C16", "C16/missing-mark", format!("{} through {} marked too little", kname, t.flavour), format!("step {} {}: container {} pages {:?} overlap the written bytes {:?} but are clean (page size {}, slice base offset {})", step, line, k, missing, wrote, t.ps, t.base_off));
                    }
                }
            }
        }
        cx().actor = 0;
        cx().mode = Mode::Setup;
        let desc = if cx().trace {
            Some(J::obj().set("containers", J::strs(conts.iter().map(|c| format!("size={} base%8={} kind={}{}", c.size, c.ptr as usize % 8, if c.region.is_some() { "MmapRegion" } else { "VolatileSlice over simulated RAM" }, c.track.as_ref().map(|t| format!(" bitmap={} page_size={} base_offset={}", t.flavour, t.ps, t.base_off)).unwrap_or_default())))).set("history", J::strs(log.clone())))
        } else {
            None
        };
        for c in conts {
            cx().remove_range(c.rid);
            drop(c.region);
            if let Some(a) = c.arena {
                a.release();
            }
        }
        cx().mode = Mode::Oracle;
        RunInfo { nontrivial: ok_ops > 0 && rejected > 0, desc, cell: None }
    }
}

impl Mem {
    #[allow(clippy::too_many_arguments)]
    fn one_op<BS: BitmapSlice>(&self, conts: &mut [Cont<BS>], ci: usize, spec: &ViewSpec, kind: u32, stamp: u32, step: usize, ok_ops: &mut u32, rejected: &mut u32) -> (String, &'static str) {
        let rid = conts[ci].rid;
        let cbase = cont_base_in_range(&conts[ci]);
        let (voff, vlen) = (spec.off, spec.len);
        let abs = |o: usize| cbase + voff + o;
        let base_slice = conts[ci].slice();
        let view = match derive_from_container(&conts[ci], base_slice, spec) {
            Ok(v) => v,
            Err(e) => {
                cx().violate("C04", "C04/derive", "valid derivation refused".into(), format!("step {}: derivation chain {:?} inside a {}-byte container failed: {:?}", step, spec.steps, conts[ci].size, e));
                return ("derive failed".into(), "derive");
            }
        };
        if view.len() != vlen || view.ptr_guard().as_ptr() as usize != conts[ci].ptr as usize + voff {
            cx().violate("C04", "C04/derive", "derived view position".into(), format!("step {}: derivation chain {:?} gave a view of {} bytes at +{}, expected {} bytes at +{}", step, spec.steps, view.len(), (view.ptr_guard().as_ptr() as usize).wrapping_sub(conts[ci].ptr as usize), vlen, voff));
            return ("derive mismatch".into(), "derive");
        }
        let mut j = Judge { step, desc: String::new(), kind: "" };
        macro_rules! tally {
            ($obs:expr) => {
                match $obs {
                    Obs::Count(_) | Obs::Unit | Obs::Bytes(_) => *ok_ops += 1,
                    _ => *rejected += 1,
                }
            };
        }
        match kind {
            // ---- byte buffers ------------------------------------------------------------------
            0 | 1 => {
                j.kind = "write";
                let (addr, n) = (gen_off(vlen), gen_len(vlen));
                let res = cx().a(8) as usize;
                let buf = LocalBuf::new(n, res, |i| pat(stamp, i));
                j.desc = format!("write(buf[{}] @%8={}, {})", n, res, addr);
                let k = if addr < vlen { n.min(vlen - addr) } else { 0 };
                let exp = if addr < vlen { Obs::Count(k) } else { Obs::Oob };
                let got = with_allowed(rid, &[(abs(addr), abs(addr) + k)], || flat(catch(|| view.write(buf.as_ref(), addr)), obs_count));
                if k > 0 {
                    conts[ci].model[voff + addr..voff + addr + k].copy_from_slice(&buf.as_ref()[..k]);
                    note_w(ci, voff + addr, voff + addr + k);
                }
                j.expect(&got, &exp);
                tally!(got);
            }
            2 | 3 => {
                j.kind = "read";
                let (addr, n) = (gen_off(vlen), gen_len(vlen));
                let res = cx().a(8) as usize;
                let mut buf = LocalBuf::new(n, res, |_| 0xAA);
                j.desc = format!("read(buf[{}] @%8={}, {})", n, res, addr);
                let k = if addr < vlen { n.min(vlen - addr) } else { 0 };
                let exp = if addr < vlen { Obs::Count(k) } else { Obs::Oob };
                let got = with_allowed(rid, &[(abs(addr), abs(addr) + k)], || flat(catch(|| view.read(buf.as_mut(), addr)), obs_count));
                j.expect(&got, &exp);
                if got == exp {
                    let want: Vec<u8> = conts[ci].model[voff + addr.min(vlen)..voff + addr.min(vlen) + k].iter().copied().chain(std::iter::repeat(0xAA).take(n - k)).collect();
                    if buf.as_ref() != &want[..] {
                        cx().violate("C04", "C04/data", "read data".into(), format!("step {} {}: buffer holds {:02x?}, expected {:02x?}", step, j.desc, buf.as_ref(), want));
                    }
                }
                tally!(got);
            }
            4 => {
                j.kind = "write_slice";
                let (addr, n) = (gen_off(vlen), gen_len(vlen));
                let buf = LocalBuf::new(n, cx().a(8) as usize, |i| pat(stamp, i));
                j.desc = format!("write_slice(buf[{}], {})", n, addr);
                let k = if addr < vlen { n.min(vlen - addr) } else { 0 };
                let exp = if addr >= vlen { Obs::Oob } else if k < n { Obs::Partial(n, k) } else { Obs::Unit };
                let got = with_allowed(rid, &[(abs(addr), abs(addr) + k)], || flat(catch(|| view.write_slice(buf.as_ref(), addr)), obs_unit));
                if k > 0 {
                    conts[ci].model[voff + addr..voff + addr + k].copy_from_slice(&buf.as_ref()[..k]);
                    note_w(ci, voff + addr, voff + addr + k);
                }
                j.expect(&got, &exp);
                tally!(got);
            }
            5 => {
                j.kind = "read_slice";
                let (addr, n) = (gen_off(vlen), gen_len(vlen));
                let mut buf = LocalBuf::new(n, cx().a(8) as usize, |_| 0xAA);
                j.desc = format!("read_slice(buf[{}], {})", n, addr);
                let k = if addr < vlen { n.min(vlen - addr) } else { 0 };
                let exp = if addr >= vlen { Obs::Oob } else if k < n { Obs::Partial(n, k) } else { Obs::Unit };
                let got = with_allowed(rid, &[(abs(addr), abs(addr) + k)], || flat(catch(|| view.read_slice(buf.as_mut(), addr)), obs_unit));
                j.expect(&got, &exp);
                if got == Obs::Unit && buf.as_ref() != &conts[ci].model[voff + addr..voff + addr + n] {
                    cx().violate("C04", "C04/data", "read_slice data".into(), format!("step {} {}: wrong bytes", step, j.desc));
                }
                tally!(got);
            }
            // ---- objects -----------------------------------------------------------------------
            6 | 7 => {
                let ti = cx().a(20) as usize;
                let sz = TYPE_SIZES[ti];
                let addr = gen_off(vlen);
                let k = if addr < vlen { sz.min(vlen - addr) } else { 0 };
                let exp_w = if addr >= vlen { Obs::Oob } else if k < sz { Obs::Partial(sz, k) } else { Obs::Unit };
                let bytes: Vec<u8> = (0..sz).map(|i| pat(stamp, i)).collect();
                if kind == 6 {
                    j.kind = "write_obj";
                    j.desc = format!("write_obj::<{}>({})", TYPE_NAMES[ti], addr);
                    let got = with_allowed(rid, &[(abs(addr), abs(addr) + k)], || with_type!(ti, T => flat(catch(|| view.write_obj::<T>(mk::<T>(&bytes), addr)), obs_unit)));
                    if k > 0 {
                        conts[ci].model[voff + addr..voff + addr + k].copy_from_slice(&bytes[..k]);
                        note_w(ci, voff + addr, voff + addr + k);
                    }
                    j.expect(&got, &exp_w);
                    tally!(got);
                } else {
                    j.kind = "read_obj";
                    j.desc = format!("read_obj::<{}>({})", TYPE_NAMES[ti], addr);
                    let got = with_allowed(rid, &[(abs(addr), abs(addr) + k)], || with_type!(ti, T => flat(catch(|| view.read_obj::<T>(addr)), |r| match r { Ok(v) => Obs::Bytes(bytes_of(&v)), Err(e) => obs_err(&e) })));
                    let exp = if exp_w == Obs::Unit { Obs::Bytes(conts[ci].model[voff + addr..voff + addr + sz].to_vec()) } else { exp_w };
                    j.expect(&got, &exp);
                    tally!(got);
                }
            }
            // ---- typed references ------------------------------------------------------------------
            8 | 9 => {
                let ti = cx().a(20) as usize;
                let sz = TYPE_SIZES[ti];
                let addr = gen_off(vlen);
                let fits = addr.checked_add(sz).map(|e| e <= vlen).unwrap_or(false);
                let bytes: Vec<u8> = (0..sz).map(|i| pat(stamp, i)).collect();
                let store = kind == 8;
                j.kind = if store { "ref.store" } else { "ref.load" };
                j.desc = format!("get_ref::<{}>({}).{}", TYPE_NAMES[ti], addr, if store { "store" } else { "load" });
                let got = with_allowed(rid, &[(abs(addr), abs(addr) + if fits { sz } else { 0 })], || {
                    with_type!(ti, T => flat(catch(|| view.get_ref::<T>(addr).map(|r| {
                        if r.len() != sz { return Obs::Panic(format!("VolatileRef::len() = {}", r.len())); }
                        if store { r.store(mk::<T>(&bytes)); Obs::Unit } else { Obs::Bytes(bytes_of(&r.load())) }
                    })), |r| match r { Ok(o) => o, Err(e) => obs_err(&e) }))
                });
                let exp = if !fits { Obs::Oob } else if store { Obs::Unit } else { Obs::Bytes(conts[ci].model[voff + addr..voff + addr + sz].to_vec()) };
                if fits && store {
                    conts[ci].model[voff + addr..voff + addr + sz].copy_from_slice(&bytes);
                    note_w(ci, voff + addr, voff + addr + sz);
                }
                j.expect(&got, &exp);
                tally!(got);
            }
            // ---- element arrays --------------------------------------------------------------------
            10..=14 => {
                let ti = cx().a(20) as usize;
                let sz = TYPE_SIZES[ti];
                let addr = gen_off(vlen);
                let maxn = vlen.saturating_sub(addr) / sz;
                let n = match cx().a(5) {
                    0 => maxn,
                    1 => maxn + 1,
                    2 => 1,
                    _ => cx().a(maxn as u32 + 2) as usize,
                };
                let nbytes = n * sz;
                let fits = addr.checked_add(nbytes).map(|e| e <= vlen).unwrap_or(false);
                let sub = kind - 10;
                // local element buffer length: shorter / equal / longer
                let m = match cx().a(4) {
                    0 => n,
                    1 => n + 1 + cx().a(3) as usize,
                    2 => n.saturating_sub(1 + cx().a(2) as usize),
                    _ => cx().a(n as u32 + 3) as usize,
                };
                let idx = if n > 0 { cx().a(n as u32) as usize } else { 0 };
                let dst_spec = if sub == 4 { Some(gen_view(conts[ci].size)) } else { None };
                j.kind = ["array.store", "array.load", "array.copy_from", "array.copy_to", "array.copy_to_volatile_slice"][sub as usize];
                j.desc = format!("get_array_ref::<{}>({}, {}).{} (local elements {}, index {})", TYPE_NAMES[ti], addr, n, j.kind, m, idx);
                if !fits {
                    let got = with_allowed(rid, &[], || with_type!(ti, T => flat(catch(|| view.get_array_ref::<T>(addr, n).map(|_| ())), obs_unit)));
                    j.expect(&got, &Obs::Oob);
                    tally!(got);
                } else {
                    let model_before = conts[ci].model.clone();
                    let (lo, hi) = (voff + addr, voff + addr + nbytes);
                    let bad_index = sub <= 1 && cx().a(6) == 0;
                    match sub {
                        0 | 1 if bad_index => {
                            // an element index at or past the end names no element: the call must not
                            // return (it panics by contract), let alone touch the bytes behind the array
                            let bad = n + [0usize, 0, 0, 1, 9][cx().a(5) as usize];
                            let bytes: Vec<u8> = (0..sz).map(|i| pat(stamp, i)).collect();
                            let form = cx().a(3);
                            j.kind = ["array.store(index past the end)", "array.load(index past the end)", "array.ref_at(index past the end)"][form as usize];
                            j.desc = format!("get_array_ref::<{}>({}, {}).{} index {}", TYPE_NAMES[ti], addr, n, ["store", "load", "ref_at"][form as usize], bad);
                            let got = with_allowed(rid, &[], || {
                                with_type!(ti, T => flat(catch(|| view.get_array_ref::<T>(addr, n).map(|a| match form {
                                    0 => a.store(bad, mk::<T>(&bytes)),
                                    1 => drop(a.load(bad)),
                                    _ => drop(a.ref_at(bad).len()),
                                })), obs_unit))
                            });
                            match got {
                                Obs::Panic(_) => *rejected += 1,
                                other => cx().violate("C04", "C04/index", format!("{} accepted", j.kind), format!("step {} {}: returned {:?}; the index names no element of the array", step, j.desc, other)),
                            }
                        }
                        0 | 1 if n == 0 => {
                            // indexing an empty array panics by contract; nothing to do
                            let got = with_allowed(rid, &[], || with_type!(ti, T => flat(catch(|| view.get_array_ref::<T>(addr, n).map(|a| a.len())), obs_count)));
                            j.expect(&got, &Obs::Count(0));
                            tally!(got);
                        }
                        0 => {
                            let bytes: Vec<u8> = (0..sz).map(|i| pat(stamp, i)).collect();
                            let via_ref_at = cx().a(2) == 0;
                            let got = with_allowed(rid, &[(abs(addr + idx * sz), abs(addr + idx * sz) + sz)], || {
                                with_type!(ti, T => flat(catch(|| view.get_array_ref::<T>(addr, n).map(|a| if via_ref_at { a.ref_at(idx).store(mk::<T>(&bytes)) } else { a.store(idx, mk::<T>(&bytes)) })), obs_unit))
                            });
                            conts[ci].model[lo + idx * sz..lo + idx * sz + sz].copy_from_slice(&bytes);
                            note_w(ci, lo + idx * sz, lo + idx * sz + sz);
                            j.expect(&got, &Obs::Unit);
                            tally!(got);
                        }
                        1 => {
                            let got = with_allowed(rid, &[(abs(addr + idx * sz), abs(addr + idx * sz) + sz)], || {
                                with_type!(ti, T => flat(catch(|| view.get_array_ref::<T>(addr, n).map(|a| bytes_of(&a.load(idx)))), |r| match r { Ok(b) => Obs::Bytes(b), Err(e) => obs_err(&e) }))
                            });
                            j.expect(&got, &Obs::Bytes(model_before[lo + idx * sz..lo + idx * sz + sz].to_vec()));
                            tally!(got);
                        }
                        2 => {
                            let k = n.min(m);
                            let src: Vec<u8> = (0..m * sz).map(|i| pat(stamp, i)).collect();
                            let got = with_allowed(rid, &[(abs(addr), abs(addr) + k * sz)], || {
                                with_type!(ti, T => {
                                    let elems: Vec<T> = (0..m).map(|e| mk::<T>(&src[e * sz..])).collect();
                                    flat(catch(|| view.get_array_ref::<T>(addr, n).map(|a| a.copy_from(&elems))), obs_unit)
                                })
                            });
                            conts[ci].model[lo..lo + k * sz].copy_from_slice(&src[..k * sz]);
                            note_w(ci, lo, lo + k * sz);
                            j.expect(&got, &Obs::Unit);
                            tally!(got);
                        }
                        3 => {
                            let k = n.min(m);
                            let mut out: Vec<u8> = Vec::new();
                            let got = with_allowed(rid, &[(abs(addr), abs(addr) + k * sz)], || {
                                with_type!(ti, T => {
                                    let mut elems: Vec<T> = (0..m).map(|_| mk::<T>(&[0xAA; 32])).collect();
                                    let r = flat(catch(|| view.get_array_ref::<T>(addr, n).map(|a| a.copy_to(&mut elems))), obs_count);
                                    for e in &elems { out.extend_from_slice(&bytes_of(e)); }
                                    r
                                })
                            });
                            j.expect(&got, &Obs::Count(k));
                            let want: Vec<u8> = model_before[lo..lo + k * sz].iter().copied().chain(std::iter::repeat(0xAA).take((m - k) * sz)).collect();
                            if got == Obs::Count(k) && out != want {
                                cx().violate("C04", "C04/data", "array.copy_to data".into(), format!("step {} {}: buffer holds {:02x?}, expected {:02x?}", step, j.desc, out, want));
                            }
                            tally!(got);
                        }
                        _ => {
                            let ds = dst_spec.unwrap();
                            let dview = derive(conts[ci].slice(), &ds).expect("valid destination view");
                            let k = nbytes.min(ds.len);
                            j.desc += &format!(" dst=view{:?}(+{},{})", ds.steps, ds.off, ds.len);
                            let got = with_allowed(rid, &[(abs(addr), abs(addr) + k), (cbase + ds.off, cbase + ds.off + k)], || {
                                with_type!(ti, T => flat(catch(|| view.get_array_ref::<T>(addr, n).map(|a| a.copy_to_volatile_slice(dview))), obs_unit))
                            });
                            let src = model_before[lo..lo + k].to_vec();
                            conts[ci].model[ds.off..ds.off + k].copy_from_slice(&src);
                            note_w(ci, ds.off, ds.off + k);
                            j.expect(&got, &Obs::Unit);
                            tally!(got);
                        }
                    }
                    let _ = hi;
                }
            }
            // ---- slice-level element copies ---------------------------------------------------------
            15 | 16 => {
                let ti = cx().a(20) as usize;
                let sz = TYPE_SIZES[ti];
                let cap = vlen / sz;
                let m = match cx().a(4) {
                    0 => cap,
                    1 => cap + 1 + cx().a(3) as usize,
                    2 => cap.saturating_sub(1),
                    _ => cx().a(cap as u32 + 3) as usize,
                };
                let k = cap.min(m);
                if kind == 15 {
                    j.kind = "slice.copy_to";
                    j.desc = format!("copy_to::<{}>(buf[{} elements])", TYPE_NAMES[ti], m);
                    let mut out: Vec<u8> = Vec::new();
                    let got = with_allowed(rid, &[(abs(0), abs(0) + k * sz)], || {
                        with_type!(ti, T => {
                            let mut elems: Vec<T> = (0..m).map(|_| mk::<T>(&[0xAA; 32])).collect();
                            let r = flat(catch(|| view.copy_to(&mut elems)), Obs::Count);
                            for e in &elems { out.extend_from_slice(&bytes_of(e)); }
                            r
                        })
                    });
                    j.expect(&got, &Obs::Count(k));
                    let want: Vec<u8> = conts[ci].model[voff..voff + k * sz].iter().copied().chain(std::iter::repeat(0xAA).take((m - k) * sz)).collect();
                    if got == Obs::Count(k) && out != want {
                        cx().violate("C04", "C04/data", "slice.copy_to data".into(), format!("step {} {}: wrong bytes", step, j.desc));
                    }
                    tally!(got);
                } else {
                    j.kind = "slice.copy_from";
                    j.desc = format!("copy_from::<{}>(buf[{} elements])", TYPE_NAMES[ti], m);
                    let src: Vec<u8> = (0..m * sz).map(|i| pat(stamp, i)).collect();
                    let got = with_allowed(rid, &[(abs(0), abs(0) + k * sz)], || {
                        with_type!(ti, T => {
                            let elems: Vec<T> = (0..m).map(|e| mk::<T>(&src[e * sz..])).collect();
                            flat(catch(|| view.copy_from(&elems)), |()| Obs::Unit)
                        })
                    });
                    conts[ci].model[voff..voff + k * sz].copy_from_slice(&src[..k * sz]);
                    note_w(ci, voff, voff + k * sz);
                    j.expect(&got, &Obs::Unit);
                    tally!(got);
                }
            }
            17 => {
                j.kind = "slice.copy_to_volatile_slice";
                // destination: a view of the same or of another container
                let di = cx().a(conts.len() as u32) as usize;
                let ds = gen_view(conts[di].size);
                let dview = derive(conts[di].slice(), &ds).expect("valid destination view");
                let k = vlen.min(ds.len);
                j.desc = format!("copy_to_volatile_slice(dst=c{} view{:?}(+{},{}))", di, ds.steps, ds.off, ds.len);
                let dbase = cont_base_in_range(&conts[di]);
                let drid = conts[di].rid;
                cx().allowed = vec![(rid, abs(0), abs(0) + k), (drid, dbase + ds.off, dbase + ds.off + k)];
                cx().stray = None;
                let got = flat(catch(|| view.copy_to_volatile_slice(dview)), |()| Obs::Unit);
                cx().allowed.clear();
                let src = conts[ci].model[voff..voff + k].to_vec();
                conts[di].model[ds.off..ds.off + k].copy_from_slice(&src);
                note_w(di, ds.off, ds.off + k);
                j.expect(&got, &Obs::Unit);
                tally!(got);
            }
            // ---- atomics ---------------------------------------------------------------------------
            18 | 19 => {
                let ti = cx().a(10) as usize;
                let sz = ATOMIC_SIZES[ti];
                // bias towards aligned addresses
                let addr = {
                    let a = gen_off(vlen);
                    if cx().a(3) != 0 {
                        let host = conts[ci].ptr as usize + voff + a;
                        a + (sz - host % sz) % sz
                    } else {
                        a
                    }
                };
                let fits = addr.checked_add(sz).map(|e| e <= vlen).unwrap_or(false);
                let aligned = (conts[ci].ptr as usize + voff + addr) % sz == 0;
                let bytes: Vec<u8> = (0..sz).map(|i| pat(stamp, i)).collect();
                let store = kind == 18;
                let order = [Ordering::Relaxed, Ordering::SeqCst, if store { Ordering::Release } else { Ordering::Acquire }][cx().a(3) as usize];
                j.kind = if store { "store" } else { "load" };
                j.desc = format!("{}::<{}>({}, {:?})", j.kind, ATOMIC_NAMES[ti], addr, order);
                let ok = fits && aligned;
                // through Bytes::store / load, or through an atomic reference obtained directly
                let direct = ATOMIC_SIZES[ti] == 4 && cx().a(3) == 0 && !(store && conts[ci].track.is_some());
                let got = with_allowed(rid, &[(abs(addr), abs(addr) + if ok { sz } else { 0 })], || {
                    if direct {
                        use std::sync::atomic::AtomicU32;
                        let v32 = u32::from_ne_bytes([bytes[0], bytes[1], bytes[2], bytes[3]]);
                        flat(catch(|| view.get_atomic_ref::<AtomicU32>(addr).map(|r| if store { r.store(v32, order); None } else { Some(r.load(order)) })), |r| match r {
                            Ok(None) => Obs::Unit,
                            Ok(Some(v)) => Obs::Bytes(v.to_ne_bytes().to_vec()),
                            Err(e) => obs_err(&e),
                        })
                    } else {
                        with_atomic_type!(ti, T => {
                            if store {
                                flat(catch(|| view.store::<T>(mk::<T>(&bytes), addr, order)), obs_unit)
                            } else {
                                flat(catch(|| view.load::<T>(addr, order)), |r| match r { Ok(v) => Obs::Bytes(bytes_of(&v)), Err(e) => obs_err(&e) })
                            }
                        })
                    }
                });
                let exp = if !fits { Obs::Oob } else if !aligned { Obs::Misaligned } else if store { Obs::Unit } else { Obs::Bytes(conts[ci].model[voff + addr..voff + addr + sz].to_vec()) };
                if ok && store {
                    conts[ci].model[voff + addr..voff + addr + sz].copy_from_slice(&bytes);
                    note_w(ci, voff + addr, voff + addr + sz);
                }
                j.expect(&got, &exp);
                tally!(got);
            }
            20 => {
                // references handed out for aligned objects (types whose size and alignment differ included)
                j.kind = "aligned_as_mut";
                let tsel = cx().a(6) as usize;
                let (ti, sz, al) = [(2usize, 4usize, 4usize), (3, 8, 8), (11, 10, 2), (12, 16, 8), (19, 12, 4), (10, 3, 1)][tsel];
                let addr = {
                    let a = gen_off(vlen);
                    let host = conts[ci].ptr as usize + voff + a;
                    if cx().a(3) != 0 { a + (al - host % al) % al } else { a }
                };
                let fits = addr.checked_add(sz).map(|e| e <= vlen).unwrap_or(false);
                let aligned = (conts[ci].ptr as usize + voff + addr) % al == 0;
                j.desc = format!("aligned_as_mut::<{}>({}) then write / aligned_as_ref read", TYPE_NAMES[ti], addr);
                let bytes: Vec<u8> = (0..sz).map(|i| pat(stamp, i)).collect();
                let ok = fits && aligned;
                if conts[ci].track.is_some() {
                    // writes through handed-out references are exempt from tracking, so in tracked worlds the
                    // references are only derived: handing one out writes nothing and must mark nothing
                    j.kind = "aligned_as_mut (derived, not written through)";
                    j.desc = format!("aligned_as_mut::<{}>({}) / aligned_as_ref, nothing written", TYPE_NAMES[ti], addr);
                    let got = with_allowed(rid, &[(abs(addr), abs(addr) + if ok { sz } else { 0 })], || {
                        // SAFETY: single-threaded; the references are dropped at once.
                        with_type!(ti, T => flat(catch(|| unsafe { view.aligned_as_mut::<T>(addr).map(|_| ()).and_then(|()| view.aligned_as_ref::<T>(addr).map(|_| ())) }), obs_unit))
                    });
                    let exp = if !fits { Obs::Oob } else if !aligned { Obs::Misaligned } else { Obs::Unit };
                    j.expect(&got, &exp);
                    tally!(got);
                } else {
                let got = with_allowed(rid, &[(abs(addr), abs(addr) + if ok { sz } else { 0 })], || {
                    // SAFETY: single-threaded; nobody else uses the bytes during this statement.
                    with_type!(ti, T => flat(catch(|| unsafe { view.aligned_as_mut::<T>(addr).map(|r| *r = mk::<T>(&bytes)).and_then(|()| view.aligned_as_ref::<T>(addr).map(|r| bytes_of(r))) }), |r| match r { Ok(b) => Obs::Bytes(b), Err(e) => obs_err(&e) }))
                });
                let exp = if !fits { Obs::Oob } else if !aligned { Obs::Misaligned } else { Obs::Bytes(bytes.clone()) };
                if ok {
                    conts[ci].model[voff + addr..voff + addr + sz].copy_from_slice(&bytes);
                    note_w(ci, voff + addr, voff + addr + sz);
                }
                j.expect(&got, &exp);
                tally!(got);
                }
            }
            // ---- the region's own byte-access interface (Bytes<MemoryRegionAddress>) -----------------------
            25 | 26 => {
                use vm_memory::guest_memory::Error as GErr;
                use vm_memory::MemoryRegionAddress as MRA;
                let reg = conts[ci].region.as_ref().unwrap();
                let size = conts[ci].size;
                let addr = gen_off(size);
                let n = gen_len(size);
                let k = if addr < size { n.min(size - addr) } else { 0 };
                let gobs = |e: GErr| match e {
                    GErr::InvalidBackendAddress => Obs::Oob,
                    GErr::PartialBuffer { expected, completed } => Obs::Partial(expected, completed),
                    e => Obs::Panic(format!("{:?}", e)),
                };
                let rbase = cont_base_in_range(&conts[ci]);
                let form = cx().a(8);
                let data: Vec<u8> = (0..n).map(|i| pat(stamp, i)).collect();
                let mut rbuf = vec![0xAAu8; n];
                j.kind = ["region.write", "region.read", "region.write_slice", "region.read_slice", "region.write_obj", "region.read_obj", "region.store", "region.load"][form as usize];
                j.desc = format!("{}(len {}, region offset {})", j.kind, if form >= 4 { 8 } else { n }, addr);
                // atomic forms: every width, at offsets around the end of the region (an access that starts
                // inside and ends past the end must be refused and touch nothing)
                let ati = cx().a(10) as usize;
                let asz = ATOMIC_SIZES[ati];
                let aaddr = if cx().a(4) != 0 { addr & !(asz - 1) } else { addr };
                let aok = aaddr.checked_add(asz).map(|e| e <= size).unwrap_or(false) && (conts[ci].ptr as usize + aaddr) % asz == 0;
                if form >= 6 {
                    j.desc = format!("{}::<{}>(region offset {})", j.kind, ATOMIC_NAMES[ati], aaddr);
                    if aaddr < size && aaddr + asz > size {
                        cx().count("probe.region_atomic_access_straddling_the_region_end");
                    }
                }
                let adata: Vec<u8> = (0..asz).map(|i| pat(stamp, i)).collect();
                let (got, exp, wrote): (Obs, Obs, usize) = match form {
                    0 => (with_allowed(rid, &[(rbase + addr, rbase + addr + k)], || flat(catch(|| reg.write(&data, MRA(addr as u64))), |r| match r { Ok(c) => Obs::Count(c), Err(e) => gobs(e) })), if addr < size { Obs::Count(k) } else { Obs::Oob }, k),
                    1 => (with_allowed(rid, &[(rbase + addr, rbase + addr + k)], || flat(catch(|| reg.read(&mut rbuf, MRA(addr as u64))), |r| match r { Ok(c) => Obs::Count(c), Err(e) => gobs(e) })), if addr < size { Obs::Count(k) } else { Obs::Oob }, 0),
                    2 => (with_allowed(rid, &[(rbase + addr, rbase + addr + k)], || flat(catch(|| reg.write_slice(&data, MRA(addr as u64))), |r| match r { Ok(()) => Obs::Unit, Err(e) => gobs(e) })), if addr >= size { Obs::Oob } else if k < n { Obs::Partial(n, k) } else { Obs::Unit }, k),
                    3 => (with_allowed(rid, &[(rbase + addr, rbase + addr + k)], || flat(catch(|| reg.read_slice(&mut rbuf, MRA(addr as u64))), |r| match r { Ok(()) => Obs::Unit, Err(e) => gobs(e) })), if addr >= size { Obs::Oob } else if k < n { Obs::Partial(n, k) } else { Obs::Unit }, 0),
                    4 => {
                        let k8 = if addr < size { 8usize.min(size - addr) } else { 0 };
                        let v = mk::<u64>(&(0..8).map(|i| pat(stamp, i)).collect::<Vec<u8>>());
                        (with_allowed(rid, &[(rbase + addr, rbase + addr + k8)], || flat(catch(|| reg.write_obj(v, MRA(addr as u64))), |r| match r { Ok(()) => Obs::Unit, Err(e) => gobs(e) })), if addr >= size { Obs::Oob } else if k8 < 8 { Obs::Partial(8, k8) } else { Obs::Unit }, k8)
                    }
                    6 => (
                        with_allowed(rid, &[(rbase + aaddr, rbase + aaddr + if aok { asz } else { 0 })], || with_atomic_type!(ati, T => flat(catch(|| reg.store::<T>(mk::<T>(&adata), MRA(aaddr as u64), Ordering::SeqCst)), |r| match r { Ok(()) => Obs::Unit, Err(e) => gobs(e) }))),
                        if aok { Obs::Unit } else { Obs::Oob },
                        0,
                    ),
                    7 => (
                        with_allowed(rid, &[(rbase + aaddr, rbase + aaddr + if aok { asz } else { 0 })], || with_atomic_type!(ati, T => flat(catch(|| reg.load::<T>(MRA(aaddr as u64), Ordering::SeqCst)), |r| match r { Ok(v) => Obs::Bytes(bytes_of(&v)), Err(e) => gobs(e) }))),
                        if aok { Obs::Bytes(conts[ci].model[aaddr..aaddr + asz].to_vec()) } else { Obs::Oob },
                        0,
                    ),
                    _ => {
                        let k8 = if addr < size { 8usize.min(size - addr) } else { 0 };
                        let want = if k8 == 8 { Obs::Bytes(conts[ci].model[addr..addr + 8].to_vec()) } else if addr >= size { Obs::Oob } else { Obs::Partial(8, k8) };
                        (with_allowed(rid, &[(rbase + addr, rbase + addr + k8)], || flat(catch(|| reg.read_obj::<u64>(MRA(addr as u64))), |r| match r { Ok(v) => Obs::Bytes(bytes_of(&v)), Err(e) => gobs(e) })), want, 0)
                    }
                };
                if form == 6 && aok {
                    conts[ci].model[aaddr..aaddr + asz].copy_from_slice(&adata);
                    note_w(ci, aaddr, aaddr + asz);
                }
                if wrote > 0 {
                    let src: Vec<u8> = if form == 4 { (0..8).map(|i| pat(stamp, i)).collect() } else { data.clone() };
                    conts[ci].model[addr..addr + wrote].copy_from_slice(&src[..wrote]);
                    note_w(ci, addr, addr + wrote);
                }
                j.expect(&got, &exp);
                if matches!(form, 1 | 3) && got == exp && k > 0 && (form == 1 || k == n) && rbuf[..k] != conts[ci].model[addr..addr + k] {
                    cx().violate("C04", "C04/data", format!("{} data", j.kind), format!("step {} {}: wrong bytes", step, j.desc));
                }
                tally!(got);
            }
            // ---- derivation requests around the end of the accessor and of the address space ------------
            27 | 28 => {
                j.kind = "derive-probe";
                let sz_t = TYPE_SIZES[cx().a(20) as usize];
                let ti = TYPE_SIZES.iter().position(|&x| x == sz_t).unwrap();
                let sz = TYPE_SIZES[ti];
                let on_region = conts[ci].region.is_some() && cx().a(2) == 0;
                // the accessor probed: the derived view, or the region container itself
                let (plen, pbase) = if on_region { (conts[ci].size, conts[ci].ptr as usize) } else { (vlen, conts[ci].ptr as usize + voff) };
                let edge = |l: usize| -> usize {
                    let c = cx();
                    match c.a(12) {
                        0 => 0,
                        1 => l,
                        2 => l.saturating_sub(1),
                        3 => l + 1,
                        4 => usize::MAX,
                        5 => usize::MAX - c.a(40) as usize,
                        6 => usize::MAX - l,
                        7 => (usize::MAX - l).wrapping_add(1 + c.a(3) as usize),
                        8 => 1usize << 63,
                        9 => (1usize << 63) + c.a(l as u32 + 1) as usize,
                        _ => c.a(l as u32 + 1) as usize,
                    }
                };
                let o = edge(plen);
                let n = match cx().a(8) {
                    0 => edge(plen.saturating_sub(o.min(plen))),
                    1 => usize::MAX / sz,
                    2 => (usize::MAX / sz).saturating_add(1),
                    3 => ((usize::MAX - o) / sz).saturating_add(1),
                    4 => plen.saturating_sub(o.min(plen)) / sz,
                    5 => plen.saturating_sub(o.min(plen)) / sz + 1,
                    _ => edge(plen),
                };
                let form = cx().a(if on_region { 5 } else { 7 });
                let fname = ["get_slice", "get_ref", "get_array_ref", "get_atomic_ref::<AtomicU32>", "GuestMemoryRegion::get_slice/get_host_address", "subslice", "offset/split_at"][if on_region { form as usize } else { [0, 1, 2, 3, 5, 6, 6][form as usize] }];
                j.desc = format!("{} {}({}, {}) with {}-byte elements on a {}-byte accessor", if on_region { "region" } else { "view" }, fname, o, n, sz, plen);
                // (bytes requested starting at o) per form; None = overflow of the request itself
                #[derive(Debug)]
                enum Got {
                    Acc(usize, usize),
                    Two((usize, usize), (usize, usize)),
                    Err(Obs),
                }
                fn acc<B2: BitmapSlice>(s: &VolatileSlice<'_, B2>) -> Got {
                    Got::Acc(s.ptr_guard().as_ptr() as usize, s.len())
                }
                let reg = conts[ci].region.as_ref();
                // building an atomic reference dereferences the stored address: allowed inside only
                let allow: Vec<(usize, usize)> = if o.checked_add(4).map(|e| e <= plen).unwrap_or(false) { vec![(cbase + if on_region { 0 } else { voff } + o, cbase + if on_region { 0 } else { voff } + o + 4)] } else { vec![] };
                let (want_bytes, got): (Option<usize>, OpOutcome<Got>) = with_allowed(rid, &allow, || {
                    if on_region {
                        let r = reg.unwrap();
                        use vm_memory::{GuestMemoryRegion, MemoryRegionAddress as MRA};
                        let tr = |s: Result<VolatileSlice<'_, ()>, VErr>| match s {
                            Ok(s) => Got::Acc(s.ptr_guard().as_ptr() as usize, s.len()),
                            Err(e) => Got::Err(obs_err(&e)),
                        };
                        match form {
                            0 => (Some(n), catch(|| tr(VolatileMemory::get_slice(&**r, o, n)))),
                            1 => (Some(sz), catch(|| with_type!(ti, T => match VolatileMemory::get_ref::<T>(&**r, o) { Ok(x) => Got::Acc(x.ptr_guard().as_ptr() as usize, x.len()), Err(e) => Got::Err(obs_err(&e)) }))),
                            2 => (n.checked_mul(sz), catch(|| with_type!(ti, T => match VolatileMemory::get_array_ref::<T>(&**r, o, n) { Ok(x) => Got::Acc(x.ptr_guard().as_ptr() as usize, x.len() * sz), Err(e) => Got::Err(obs_err(&e)) }))),
                            3 => (Some(4), catch(|| match VolatileMemory::get_atomic_ref::<std::sync::atomic::AtomicU32>(&**r, o) { Ok(x) => Got::Acc(x as *const _ as usize, 4), Err(e) => Got::Err(obs_err(&e)) })),
                            _ => (
                                Some(n),
                                catch(|| match GuestMemoryRegion::get_slice(r, MRA(o as u64), n) {
                                    Ok(s) => match r.get_host_address(MRA(o as u64)) {
                                        Ok(h) if n > 0 && h as usize != s.ptr_guard().as_ptr() as usize => Got::Err(Obs::Panic("get_host_address and get_slice disagree".into())),
                                        _ => Got::Acc(s.ptr_guard().as_ptr() as usize, s.len()),
                                    },
                                    Err(_) => Got::Err(Obs::Oob),
                                }),
                            ),
                        }
                    } else {
                        match form {
                            0 => (Some(n), catch(|| match view.get_slice(o, n) { Ok(s) => acc(&s), Err(e) => Got::Err(obs_err(&e)) })),
                            1 => (Some(sz), catch(|| with_type!(ti, T => match view.get_ref::<T>(o) { Ok(x) => Got::Acc(x.ptr_guard().as_ptr() as usize, x.len()), Err(e) => Got::Err(obs_err(&e)) }))),
                            2 => (n.checked_mul(sz), catch(|| with_type!(ti, T => match view.get_array_ref::<T>(o, n) { Ok(x) => Got::Acc(x.ptr_guard().as_ptr() as usize, x.len() * sz), Err(e) => Got::Err(obs_err(&e)) }))),
                            3 => (Some(4), catch(|| match view.get_atomic_ref::<std::sync::atomic::AtomicU32>(o) { Ok(x) => Got::Acc(x as *const _ as usize, 4), Err(e) => Got::Err(obs_err(&e)) })),
                            4 => (Some(n), catch(|| match view.subslice(o, n) { Ok(s) => acc(&s), Err(e) => Got::Err(obs_err(&e)) })),
                            5 => (Some(0), catch(|| match view.offset(o) { Ok(s) => Got::Two((s.ptr_guard().as_ptr() as usize, s.len()), (pbase, o)), Err(e) => Got::Err(obs_err(&e)) })),
                            _ => (Some(0), catch(|| match view.split_at(o) { Ok((a, b)) => Got::Two((b.ptr_guard().as_ptr() as usize, b.len()), (a.ptr_guard().as_ptr() as usize, a.len())), Err(e) => Got::Err(obs_err(&e)) })),
                        }
                    }
                });
                let two = !on_region && form >= 5;
                let atomic = form == 3;
                // the request is inside the accessor iff o + bytes <= plen without overflow
                let inside = want_bytes.and_then(|b| o.checked_add(b)).map(|e| e <= plen).unwrap_or(false);
                match got {
                    OpOutcome::Ok(Got::Acc(p, l)) => {
                        if !inside {
                            cx().violate("C04", "C04/derive", format!("{} outside accepted", fname), format!("step {} {}: accepted; the accessor handed out covers {} byte(s) at {:+} relative to the start of the {}-byte accessor", step, j.desc, l, p.wrapping_sub(pbase) as isize, plen));
                        } else if p != pbase + o || l != want_bytes.unwrap() {
                            cx().violate("C04", "C04/derive", format!("{} position", fname), format!("step {} {}: handed out {} byte(s) at offset {}", step, j.desc, l, p.wrapping_sub(pbase)));
                        } else if atomic && (pbase + o) % 4 != 0 {
                            cx().violate("C04", "C04/derive", format!("{} misaligned accepted", fname), format!("step {} {}: address {:#x} is not 4-byte aligned", step, j.desc, pbase + o));
                        } else {
                            *ok_ops += 1;
                        }
                    }
                    OpOutcome::Ok(Got::Two((p2, l2), (p1, l1))) => {
                        // offset(o) = [o, len); split_at(o) = [0, o) + [o, len)
                        if o > plen {
                            cx().violate("C04", "C04/derive", format!("{} outside accepted", fname), format!("step {} {}: accepted", step, j.desc));
                        } else if p2 != pbase + o || l2 != plen - o || p1 != pbase || l1 != o {
                            cx().violate("C04", "C04/derive", format!("{} position", fname), format!("step {} {}: parts ({}, {}) and ({}, {})", step, j.desc, p1.wrapping_sub(pbase), l1, p2.wrapping_sub(pbase), l2));
                        } else {
                            *ok_ops += 1;
                        }
                    }
                    OpOutcome::Ok(Got::Err(Obs::Panic(m))) => cx().violate("C04", "C04/derive", format!("{} inconsistent", fname), format!("step {} {}: {}", step, j.desc, m)),
                    OpOutcome::Ok(Got::Err(e)) => {
                        let legit_misaligned = atomic && e == Obs::Misaligned && (pbase.wrapping_add(o)) % 4 != 0;
                        let should_accept = if two { o <= plen } else { inside };
                        if should_accept && !legit_misaligned {
                            cx().violate("C04", "C04/derive", format!("{} inside refused", fname), format!("step {} {}: refused with {:?}", step, j.desc, e));
                        } else {
                            *rejected += 1;
                        }
                    }
                    OpOutcome::Panic(m) => cx().violate("C04", "C04/panic", format!("{} panic", fname), format!("step {} {}: panicked: {}", step, j.desc, m)),
                    OpOutcome::Sim(sp) => cx().violate("C04", "C04/panic", format!("{} aborted", fname), format!("step {} {}: {:?}", step, j.desc, sp)),
                }
            }
            // ---- pointer guards (C17, standard build) -------------------------------------------------
            24 => {
                j.kind = "ptr_guard";
                let ti = cx().a(20) as usize;
                let sz = TYPE_SIZES[ti];
                let addr = gen_off(vlen).min(vlen);
                let maxn = (vlen - addr) / sz;
                let n = cx().a(maxn as u32 + 1) as usize;
                let host = conts[ci].ptr as usize + voff + addr;
                j.desc = format!("pointer guards of slice / typed ref / element array of {} x {} at {}", n, TYPE_NAMES[ti], addr);
                let got = with_allowed(rid, &[], || {
                    with_type!(ti, T => flat(catch(|| -> Result<(), VErr> {
                        let s = view.subslice(addr, n * sz)?;
                        let mut found: Vec<(&str, usize, usize, usize)> = Vec::new();
                        { let g = s.ptr_guard(); found.push(("slice", g.len(), g.as_ptr() as usize, n * sz)); }
                        { let g = s.ptr_guard_mut(); found.push(("slice (mut)", g.len(), g.as_ptr() as usize, n * sz)); }
                        let a = s.get_array_ref::<T>(0, n)?;
                        { let g = a.ptr_guard(); found.push(("element array", g.len(), g.as_ptr() as usize, n * sz)); }
                        { let g = a.ptr_guard_mut(); found.push(("element array (mut)", g.len(), g.as_ptr() as usize, n * sz)); }
                        if n > 0 {
                            let r = s.get_ref::<T>(0)?;
                            { let g = r.ptr_guard(); found.push(("typed reference", g.len(), g.as_ptr() as usize, sz)); }
                            { let g = r.ptr_guard_mut(); found.push(("typed reference (mut)", g.len(), g.as_ptr() as usize, sz)); }
                            let r2 = a.ref_at(n - 1);
                            { let g = r2.ptr_guard(); found.push(("last element", g.len(), g.as_ptr() as usize - (n - 1) * sz, sz)); }
                        }
                        for (what, len, ptr, want) in found {
                            if len != want {
                                cx().violate("C17", "C17/guard-len", format!("pointer guard length of a {}", what), format!("step {}: the pointer guard of a {} of {} covering {} byte(s) reports len() = {}", step, what, TYPE_NAMES[ti], want, len));
                            }
                            if ptr != host {
                                cx().violate("C17", "C17/guard-ptr", format!("pointer guard address of a {}", what), format!("step {}: the pointer guard of a {} does not point at the accessor's first byte (off by {})", step, what, ptr as isize - host as isize));
                            }
                        }
                        Ok(())
                    }), obs_unit))
                });
                j.expect(&got, &Obs::Unit);
                tally!(got);
            }
            // ---- in-memory stream adapters ---------------------------------------------------------
            21 => {
                // source: the crate's &[u8] / Cursor adapters (exact forms overridden) or a real file
                // (default exact loop; it may run dry after some bytes have landed)
                let srck = cx().a(4);
                j.kind = ["read_volatile_from(&[u8])", "read_volatile_from(Cursor)", "read_volatile_from(File)", "read_volatile_from(trickling source)"][srck as usize];
                let addr = gen_off(vlen).min(vlen.saturating_sub(1));
                let count = gen_len(vlen);
                let srclen = match cx().a(3) { 0 => count, 1 => count + 3, _ => cx().a(count as u32 + 1) as usize };
                let src: Vec<u8> = (0..srclen).map(|i| pat(stamp, i)).collect();
                let exact = cx().a(2) == 0;
                j.desc = format!("{}({}, {} of {} bytes, {})", if exact { "read_exact_volatile_from" } else { "read_volatile_from" }, addr, ["&[u8]", "Cursor<&[u8]>", "File", "trickling source"][srck as usize], srclen, count);
                if vlen == 0 || srclen == 0 {
                    return (format!("{} skipped (empty)", j.desc), j.kind);
                }
                let room = vlen - addr;
                let mut s = &src[..];
                let mut cur = std::io::Cursor::new(&src[..]);
                let mut trickle = Trickle { data: &src[..], chunk: 1 + cx().a(7) as usize };
                let mut file = in_mode(Mode::Setup, || {
                    let f = crate::gmworld::memfd(0);
                    if srck == 2 {
                        use std::os::fd::AsRawFd;
                        // SAFETY: our own descriptor and buffer.
                        unsafe {
                            libc::write(f.as_raw_fd(), src.as_ptr() as *const libc::c_void, src.len());
                            libc::lseek(f.as_raw_fd(), 0, libc::SEEK_SET);
                        }
                    }
                    f
                });
                if exact {
                    let fits = count <= room;
                    // the adapters refuse up front; the default loop stores what it got before noticing the end
                    let k = if !fits { 0 } else if count <= srclen { count } else if srck >= 2 { srclen } else { 0 };
                    let got = with_allowed(rid, &[(abs(addr), abs(addr) + k)], || match srck {
                        0 => flat(catch(|| view.read_exact_volatile_from(addr, &mut s, count)), obs_unit),
                        1 => flat(catch(|| view.read_exact_volatile_from(addr, &mut cur, count)), obs_unit),
                        2 => flat(catch(|| view.read_exact_volatile_from(addr, &mut file, count)), obs_unit),
                        _ => flat(catch(|| view.read_exact_volatile_from(addr, &mut trickle, count)), obs_unit),
                    });
                    let exp = if !fits { Obs::Oob } else if count > srclen { Obs::Io(ErrorKind::UnexpectedEof) } else { Obs::Unit };
                    conts[ci].model[voff + addr..voff + addr + k].copy_from_slice(&src[..k]);
                    note_w(ci, voff + addr, voff + addr + k);
                    if fits && count > srclen {
                        PARTIAL.with(|p| p.set(true));
                    }
                    j.expect(&got, &exp);
                    tally!(got);
                } else {
                    let k = count.min(room).min(srclen).min(if srck == 3 { trickle.chunk } else { usize::MAX });
                    let got = with_allowed(rid, &[(abs(addr), abs(addr) + k)], || match srck {
                        0 => flat(catch(|| view.read_volatile_from(addr, &mut s, count)), obs_count),
                        1 => flat(catch(|| view.read_volatile_from(addr, &mut cur, count)), obs_count),
                        2 => flat(catch(|| view.read_volatile_from(addr, &mut file, count)), obs_count),
                        _ => flat(catch(|| view.read_volatile_from(addr, &mut trickle, count)), obs_count),
                    });
                    conts[ci].model[voff + addr..voff + addr + k].copy_from_slice(&src[..k]);
                    note_w(ci, voff + addr, voff + addr + k);
                    j.expect(&got, &Obs::Count(k));
                    let advanced = match srck {
                        0 => srclen - s.len(),
                        1 => cur.position() as usize,
                        3 => srclen - trickle.data.len(),
                        _ => {
                            use std::os::fd::AsRawFd;
                            // SAFETY: our own descriptor.
                            (unsafe { libc::lseek(file.as_raw_fd(), 0, libc::SEEK_CUR) }) as usize
                        }
                    };
                    if advanced != k {
                        cx().violate("C04", "C04/data", "stream position".into(), format!("step {} {}: source advanced by {} instead of {}", step, j.desc, advanced, k));
                    }
                    tally!(got);
                }
            }
            _ => {
                j.kind = "write_volatile_to(Vec)";
                let addr = gen_off(vlen).min(vlen.saturating_sub(1));
                let count = gen_len(vlen);
                let exact = cx().a(2) == 0;
                j.desc = format!("{}({}, Vec, {})", if exact { "write_all_volatile_to" } else { "write_volatile_to" }, addr, count);
                if vlen == 0 {
                    return (format!("{} skipped (empty)", j.desc), j.kind);
                }
                let room = vlen - addr;
                let mut sink: Vec<u8> = vec![0x5A; 3];
                if exact {
                    let fits = count <= room;
                    let k = if fits { count } else { 0 };
                    let got = with_allowed(rid, &[(abs(addr), abs(addr) + k)], || flat(catch(|| view.write_all_volatile_to(addr, &mut sink, count)), obs_unit));
                    j.expect(&got, &if fits { Obs::Unit } else { Obs::Oob });
                    if sink[3..] != conts[ci].model[voff + addr..voff + addr + k] {
                        cx().violate("C04", "C04/data", "sink data".into(), format!("step {} {}: sink received wrong bytes", step, j.desc));
                    }
                    tally!(got);
                } else {
                    let k = count.min(room);
                    let got = with_allowed(rid, &[(abs(addr), abs(addr) + k)], || flat(catch(|| view.write_volatile_to(addr, &mut sink, count)), obs_count));
                    j.expect(&got, &Obs::Count(k));
                    if sink[3..] != conts[ci].model[voff + addr..voff + addr + k] {
                        cx().violate("C04", "C04/data", "sink data".into(), format!("step {} {}: sink received wrong bytes", step, j.desc));
                    }
                    tally!(got);
                }
            }
        }
        (j.desc.clone(), j.kind)
    }
}
