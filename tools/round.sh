#!/bin/bash
# usage: tools/round.sh <worktree-prefix> <id-offset> <prop> [extra confirm args]   e.g. tools/round.sh /tmp/wt3- 5 C09
pre=$1; off=$2; p=$3; shift 3
for i in 1 2 3; do
  k=$((i+off))
  [ -d "$pre$p/SEEDED/$i" ] || continue
  echo "== $p-$k"
  /verif/tools/confirm_seeded.py $p $i --wt $pre$p --as $k "$@" 2>&1 | grep -E '"confirmed"|kept as' | tr '\n' ' '; echo
  [ -d /verif/seeded/$p-$k ] && /verif/tools/seeded.py /verif/seeded/$p-$k 2>&1 | tail -1 | cut -c1-300
done
