//! Minimal JSON value, writer and parser (no dependencies).

use std::collections::BTreeMap;
use std::fmt::Write;

#[derive(Clone, Debug, PartialEq)]
pub enum J {
    Null,
    Bool(bool),
    Int(i128),
    Float(f64),
    Str(String),
    Arr(Vec<J>),
    Obj(Vec<(String, J)>),
}

impl J {
    pub fn obj() -> J {
        J::Obj(Vec::new())
    }
    pub fn set(mut self, k: &str, v: J) -> J {
        if let J::Obj(ref mut o) = self {
            if let Some(e) = o.iter_mut().find(|(kk, _)| kk == k) {
                e.1 = v;
            } else {
                o.push((k.to_string(), v));
            }
        }
        self
    }
    pub fn put(&mut self, k: &str, v: J) {
        if let J::Obj(ref mut o) = self {
            if let Some(e) = o.iter_mut().find(|(kk, _)| kk == k) {
                e.1 = v;
            } else {
                o.push((k.to_string(), v));
            }
        }
    }
    pub fn get(&self, k: &str) -> Option<&J> {
        match self {
            J::Obj(o) => o.iter().find(|(kk, _)| kk == k).map(|(_, v)| v),
            _ => None,
        }
    }
    pub fn as_str(&self) -> Option<&str> {
        match self {
            J::Str(s) => Some(s),
            _ => None,
        }
    }
    pub fn as_i(&self) -> Option<i128> {
        match self {
            J::Int(i) => Some(*i),
            J::Float(f) => Some(*f as i128),
            _ => None,
        }
    }
    pub fn as_arr(&self) -> Option<&Vec<J>> {
        match self {
            J::Arr(a) => Some(a),
            _ => None,
        }
    }
    pub fn as_bool(&self) -> Option<bool> {
        match self {
            J::Bool(b) => Some(*b),
            _ => None,
        }
    }
    pub fn s(v: impl Into<String>) -> J {
        J::Str(v.into())
    }
    pub fn i(v: impl TryInto<i128>) -> J {
        J::Int(v.try_into().ok().unwrap_or(0))
    }
    pub fn from_map(m: &BTreeMap<String, u64>) -> J {
        J::Obj(m.iter().map(|(k, v)| (k.clone(), J::Int(*v as i128))).collect())
    }
    pub fn strs<I: IntoIterator<Item = S>, S: Into<String>>(it: I) -> J {
        J::Arr(it.into_iter().map(|s| J::Str(s.into())).collect())
    }

    pub fn to_string_pretty(&self) -> String {
        let mut s = String::new();
        self.write(&mut s, 0, true);
        s.push('\n');
        s
    }
    pub fn to_string_compact(&self) -> String {
        let mut s = String::new();
        self.write(&mut s, 0, false);
        s
    }

    fn write(&self, out: &mut String, ind: usize, pretty: bool) {
        match self {
            J::Null => out.push_str("null"),
            J::Bool(b) => out.push_str(if *b { "true" } else { "false" }),
            J::Int(i) => {
                let _ = write!(out, "{}", i);
            }
            J::Float(f) => {
                if f.is_finite() {
                    let _ = write!(out, "{:.3}", f);
                } else {
                    out.push_str("0.0");
                }
            }
            J::Str(s) => esc(out, s),
            J::Arr(a) => {
                let simple = a.iter().all(|x| matches!(x, J::Int(_) | J::Bool(_) | J::Null | J::Float(_)));
                out.push('[');
                for (i, v) in a.iter().enumerate() {
                    if i > 0 {
                        out.push(',');
                    }
                    if pretty && !simple {
                        out.push('\n');
                        pad(out, ind + 1);
                    }
                    v.write(out, ind + 1, pretty);
                }
                if pretty && !simple && !a.is_empty() {
                    out.push('\n');
                    pad(out, ind);
                }
                out.push(']');
            }
            J::Obj(o) => {
                out.push('{');
                for (i, (k, v)) in o.iter().enumerate() {
                    if i > 0 {
                        out.push(',');
                    }
                    if pretty {
                        out.push('\n');
                        pad(out, ind + 1);
                    }
                    esc(out, k);
                    out.push(':');
                    if pretty {
                        out.push(' ');
                    }
                    v.write(out, ind + 1, pretty);
                }
                if pretty && !o.is_empty() {
                    out.push('\n');
                    pad(out, ind);
                }
                out.push('}');
            }
        }
    }
}

fn pad(out: &mut String, n: usize) {
    for _ in 0..n {
        out.push(' ');
    }
}

fn esc(out: &mut String, s: &str) {
    out.push('"');
    for c in s.chars() {
        match c {
            '"' => out.push_str("\\\""),
            '\\' => out.push_str("\\\\"),
            '\n' => out.push_str("\\n"),
            '\r' => out.push_str("\\r"),
            '\t' => out.push_str("\\t"),
            c if (c as u32) < 0x20 => {
                let _ = write!(out, "\\u{:04x}", c as u32);
            }
            c => out.push(c),
        }
    }
    out.push('"');
}

pub fn parse(src: &str) -> Result<J, String> {
    let b = src.as_bytes();
    let mut p = 0usize;
    let v = pv(b, &mut p)?;
    ws(b, &mut p);
    if p != b.len() {
        return Err(format!("trailing data at {}", p));
    }
    Ok(v)
}

fn ws(b: &[u8], p: &mut usize) {
    while *p < b.len() && (b[*p] as char).is_ascii_whitespace() {
        *p += 1;
    }
}

fn pv(b: &[u8], p: &mut usize) -> Result<J, String> {
    ws(b, p);
    if *p >= b.len() {
        return Err("eof".into());
    }
    match b[*p] {
        b'{' => {
            *p += 1;
            let mut o = Vec::new();
            loop {
                ws(b, p);
                if *p < b.len() && b[*p] == b'}' {
                    *p += 1;
                    break;
                }
                let k = match pv(b, p)? {
                    J::Str(s) => s,
                    _ => return Err("key".into()),
                };
                ws(b, p);
                if *p >= b.len() || b[*p] != b':' {
                    return Err("colon".into());
                }
                *p += 1;
                let v = pv(b, p)?;
                o.push((k, v));
                ws(b, p);
                if *p < b.len() && b[*p] == b',' {
                    *p += 1;
                }
            }
            Ok(J::Obj(o))
        }
        b'[' => {
            *p += 1;
            let mut a = Vec::new();
            loop {
                ws(b, p);
                if *p < b.len() && b[*p] == b']' {
                    *p += 1;
                    break;
                }
                a.push(pv(b, p)?);
                ws(b, p);
                if *p < b.len() && b[*p] == b',' {
                    *p += 1;
                }
            }
            Ok(J::Arr(a))
        }
        b'"' => {
            *p += 1;
            let mut s = Vec::new();
            while *p < b.len() && b[*p] != b'"' {
                if b[*p] == b'\\' {
                    *p += 1;
                    match b.get(*p) {
                        Some(b'n') => s.push(b'\n'),
                        Some(b't') => s.push(b'\t'),
                        Some(b'r') => s.push(b'\r'),
                        Some(b'u') => {
                            let h = std::str::from_utf8(&b[*p + 1..*p + 5]).map_err(|e| e.to_string())?;
                            let c = u32::from_str_radix(h, 16).map_err(|e| e.to_string())?;
                            let mut buf = [0u8; 4];
                            s.extend_from_slice(char::from_u32(c).unwrap_or('?').encode_utf8(&mut buf).as_bytes());
                            *p += 4;
                        }
                        Some(c) => s.push(*c),
                        None => return Err("eof in string".into()),
                    }
                } else {
                    s.push(b[*p]);
                }
                *p += 1;
            }
            *p += 1;
            Ok(J::Str(String::from_utf8_lossy(&s).into_owned()))
        }
        b't' => {
            *p += 4;
            Ok(J::Bool(true))
        }
        b'f' => {
            *p += 5;
            Ok(J::Bool(false))
        }
        b'n' => {
            *p += 4;
            Ok(J::Null)
        }
        _ => {
            let st = *p;
            while *p < b.len() && (b[*p] == b'-' || b[*p] == b'+' || b[*p] == b'.' || b[*p] == b'e' || b[*p] == b'E' || b[*p].is_ascii_digit()) {
                *p += 1;
            }
            let t = std::str::from_utf8(&b[st..*p]).map_err(|e| e.to_string())?;
            if let Ok(i) = t.parse::<i128>() {
                Ok(J::Int(i))
            } else {
                t.parse::<f64>().map(J::Float).map_err(|e| format!("num {:?}: {}", t, e))
            }
        }
    }
}
