//! vmsim: deterministic simulation with fault injection for vm-memory.

#![allow(dead_code)]

mod ctl;
mod gmworld;
mod json;
mod rng;
mod scen;
mod sim;
mod sys;
mod world;
#[cfg(feature = "xen")]
mod xendev;

fn main() {
    let args: Vec<String> = std::env::args().collect();
    let code = match args.get(1).map(|s| s.as_str()) {
        Some("check") => {
            let prop = args.get(2).cloned().unwrap_or_default();
            let tier = args.get(3).cloned().unwrap_or_else(|| "quick".into());
            let xen_bin = args.iter().position(|a| a == "--xen-bin").and_then(|i| args.get(i + 1)).cloned();
            ctl::cmd_check(&prop, &tier, xen_bin.as_deref())
        }
        Some("worker") => {
            let g = |i: usize| args.get(i).cloned().unwrap_or_default();
            ctl::cmd_worker(ctl::WorkerArgs {
                scenario: g(2),
                prop: g(3),
                seed: g(4).parse().unwrap_or(0),
                start: g(5).parse().unwrap_or(0),
                stride: g(6).parse().unwrap_or(1),
                end: g(7).parse().unwrap_or(0),
                out: g(8).into(),
                max_s: g(9).parse().unwrap_or(0),
            })
        }
        Some("replay") => ctl::cmd_replay(&args.get(2).cloned().unwrap_or_default()),
        Some("list") => {
            for c in scen::checks() {
                println!("{} {}", c.prop, c.parts.iter().map(|p| format!("{}{}", p.name, if p.xen { "[xen]" } else { "" })).collect::<Vec<_>>().join(" "));
            }
            0
        }
        Some("needs-xen") => {
            let prop = args.get(2).cloned().unwrap_or_default();
            match scen::find_check(&prop) {
                Some(c) if c.parts.iter().any(|p| p.xen) => 0,
                _ => 1,
            }
        }
        _ => {
            eprintln!("usage: vmsim check <prop> <quick|thorough> [--xen-bin path] | worker ... | replay <file> | list");
            2
        }
    };
    std::process::exit(code);
}
