#!/usr/bin/env python3
"""Markdown table of the kept seeded changes and the latest result of their property's quick check."""
import json, os
ROOT = os.path.dirname(os.path.dirname(os.path.abspath(__file__)))
rows = []; n = c = 0
import collections
rounds = collections.defaultdict(lambda: [0, 0, 0])  # kept, missed by the first run of the own check, caught now by own check
# which round produced change <p>-<i>: per property, (last id of a round, round)
ROUNDS = {
    "C03": [(2, 1), (5, 2), (8, 3), (11, 4), (14, 6), (17, 8)],
    "C04": [(2, 1), (5, 2), (8, 3), (11, 4), (14, 6), (17, 8)],
    "C15": [(2, 1), (5, 2), (8, 3), (11, 4), (14, 6), (17, 8)],
    "C13": [(2, 1), (5, 2), (8, 3), (11, 4), (14, 5), (17, 8)],
    "C05": [(2, 1), (5, 2), (8, 3), (11, 4), (14, 5), (17, 7), (20, 9)],
    "C12": [(2, 1), (5, 2), (8, 3), (11, 4), (14, 5), (17, 7)],
    "C14": [(2, 1), (5, 2), (8, 3), (11, 4), (14, 5), (17, 7), (20, 9)],
    "C16": [(2, 1), (5, 2), (8, 3), (11, 4), (14, 5), (17, 7)],
    "C17": [(2, 1), (5, 2), (8, 3), (11, 4), (14, 5), (16, 7), (19, 9)],
    "C06": [(2, 1), (5, 2), (8, 4), (11, 5), (14, 7), (17, 9)],
    "C08": [(2, 1), (5, 2), (8, 4), (11, 5), (14, 7), (17, 9)],
    "C11": [(2, 1), (5, 2), (8, 4), (11, 5), (14, 7), (17, 9)],
    "C09": [(2, 1), (5, 3), (8, 4), (11, 6)],
    "C10": [(2, 1), (5, 3), (8, 4), (11, 6), (14, 8)],
    "C18": [(2, 1), (5, 3), (8, 4), (11, 6), (14, 8)],
}
def round_of(p, i):
    for last, r in ROUNDS[p]:
        if i <= last:
            return r
    return 9
def key(d):
    p, i = d.split("-"); return (p, int(i))
for d in sorted(os.listdir(os.path.join(ROOT, "seeded")), key=key):
    mp = os.path.join(ROOT, "seeded", d, "meta.json")
    if not os.path.exists(mp): continue
    m = json.load(open(mp)); r = m.get("check_result", {})
    title = open(os.path.join(ROOT, "seeded", d, "README.md")).read().strip().splitlines()[0].lstrip("# ").strip()
    title = title.replace("|", "/")[:120]
    n += 1
    ok = r.get("exit") == 1
    pp, ii = d.split("-"); rd = m.get("round") or round_of(pp, int(ii))
    rounds[rd][0] += 1
    nt = r.get("note", "")
    if any(k in nt for k in ("first run", "first attempt", "not a sequential", "not reachable", "not reached", "MISSED", "needs a harvest", "race inside", "check catches it")):
        rounds[rd][1] += 1
    rounds[rd][2] += ok
    c += ok
    note = r.get("note", "")
    oth = r.get("other_checks", {})
    othc = [f"{k} check: " + ", ".join(v.get("violation_classes", [])) for k, v in oth.items() if v.get("exit") == 1]
    res = ("yes: " + ", ".join(r.get("violation_classes", []))) if ok else (("no; " + "; ".join(othc)) if othc else ("NO" if r else "not run"))
    c2 = globals().get("c2", 0) + (1 if (not ok and othc) else 0)
    rows.append(f"| {d} | {m['property']} | {title} | {res}{' — ' + note if note else ''} |")
import sys
if "--rounds" in sys.argv:
    print("| round | changes kept | missed by the first run of their property's check | caught by their property's check now |")
    print("|---|---|---|---|")
    for k in sorted(rounds):
        print(f"| {k} | {rounds[k][0]} | {rounds[k][1]} | {rounds[k][2]} |")
    sys.exit(0)
print("| id | property | change (first line of its README) | caught by `./check <property> quick` |")
print("|---|---|---|---|")
print("\n".join(rows))
print(f"\n{c} of {n} caught by the check of their own property; {c2} more only by the check of the property that owns the mechanism (see the notes).")
