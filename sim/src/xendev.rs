//! Emulated Xen gntdev / privcmd device (xen build only). Filled in with S-xen.

pub struct XenDev {}

impl XenDev {
    pub fn on_mmap(&mut self, _fd: i32, _offset: u64, _len: usize, _id: u32) {}
    pub fn on_munmap(&mut self, _id: u32) {}
}

/// # Safety
/// `arg` must point to the ioctl argument structure of `arg_len` bytes.
pub unsafe fn ioctl(_fd: i32, _req: u64, _arg: *mut u8, _arg_len: usize) -> i32 {
    -1
}
