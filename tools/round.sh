#!/bin/bash
# usage: tools/round.sh <worktree-prefix> <id-offset> <prop> [extra confirm args]   e.g. tools/round.sh /tmp/wt4- 8 C03
# confirms SEEDED/1..3 of the scratch worktree, keeps them as seeded/<prop>-<offset+i>, and runs the
# quick check against each in a scratch snapshot (tools/seeded_wt.py)
pre=$1; off=$2; p=$3; shift 3
kept=""
for i in 1 2 3; do
  k=$((i+off))
  [ -d "$pre$p/SEEDED/$i" ] || continue
  if [ ! -d /verif/seeded/$p-$k ]; then
    /verif/tools/confirm_seeded.py $p $i --wt $pre$p --as $k "$@" 2>&1 | grep -E '"confirmed"|kept as|demo_with' | tr '\n' ' '; echo " [$p-$k]"
  fi
  [ -d /verif/seeded/$p-$k ] && kept="$kept /verif/seeded/$p-$k"
done
[ -n "$kept" ] && /verif/tools/seeded_wt.py --tag r$p $kept 2>&1 | cut -c1-400
