//! S-stream: stream transfers lose or duplicate nothing under short I/O, EINTR and errors (C14).
//! The per-call behaviour of the reader / writer is read from the tape.

use super::{RunInfo, Scenario};
use crate::gmworld::{GmWorld, RegSpec};
use crate::json::J;
use crate::sim::{catch, cx, Mode, OpOutcome, SimPanic};
use crate::world::{raw_read, raw_write, Arena};
use std::collections::VecDeque;
use std::fmt::Debug;
use std::io::ErrorKind;
use vm_memory::bitmap::BitmapSlice;
use vm_memory::volatile_memory::Error as VErr;
use vm_memory::{Bytes, GuestAddress, GuestMemory, MemoryRegionAddress, ReadVolatile, VolatileMemory, VolatileSlice, WriteVolatile};

#[derive(Clone, Copy, Debug, PartialEq)]
pub enum Beh {
    Full,
    /// short by k bytes (at least one byte is still transferred)
    Short(usize),
    Zero,
    Intr,
    Hard(ErrorKind),
}

#[derive(Clone, Debug)]
pub struct Call {
    pub buf_len: usize,
    pub buf_addr: usize,
    pub beh: Beh,
    pub n: usize,
}

pub fn stream_byte(p: usize) -> u8 {
    ((p as u64).wrapping_mul(2654435761).wrapping_add(0x9E37) >> 11) as u8
}

pub struct Scripted {
    pub script: VecDeque<Beh>,
    pub pos: usize,
    pub total: usize,
    pub calls: Vec<Call>,
    pub accepted: Vec<u8>,
    pub cap: usize,
}

impl Scripted {
    pub fn new(script: Vec<Beh>, total: usize, cap: usize) -> Scripted {
        Scripted { script: script.into(), pos: 0, total, calls: Vec::new(), accepted: Vec::new(), cap }
    }
    fn next(&mut self, buf_len: usize, buf_addr: usize) -> (Beh, Result<usize, VErr>) {
        if self.calls.len() >= self.cap {
            std::panic::panic_any(SimPanic::Budget);
        }
        let beh = self.script.pop_front().unwrap_or(Beh::Full);
        let room = self.total - self.pos;
        let r = match beh {
            Beh::Full => Ok(buf_len.min(room)),
            Beh::Short(k) => Ok(if buf_len == 0 { 0 } else { buf_len.saturating_sub(k).max(1).min(room) }),
            Beh::Zero => Ok(0),
            Beh::Intr => Err(VErr::IOError(std::io::Error::new(ErrorKind::Interrupted, "scripted EINTR"))),
            Beh::Hard(k) => Err(VErr::IOError(std::io::Error::new(k, "scripted error"))),
        };
        let c = cx();
        match (&beh, &r) {
            (Beh::Short(_), Ok(n)) if *n < buf_len => c.count("fault.stream_short"),
            (Beh::Zero, _) => c.count("fault.stream_zero"),
            (Beh::Intr, _) => c.count("fault.stream_eintr"),
            (Beh::Hard(_), _) => c.count("fault.stream_hard_error"),
            (Beh::Full, Ok(n)) if *n < buf_len => c.count("fault.stream_natural_eof"),
            _ => {}
        }
        self.calls.push(Call { buf_len, buf_addr, beh, n: *r.as_ref().unwrap_or(&0) });
        (beh, r)
    }
}

impl ReadVolatile for Scripted {
    fn read_volatile<B: BitmapSlice>(&mut self, buf: &mut VolatileSlice<B>) -> Result<usize, VErr> {
        let addr = buf.ptr_guard().as_ptr() as usize;
        let (_, r) = self.next(buf.len(), addr);
        let n = r?;
        let data: Vec<u8> = (self.pos..self.pos + n).map(stream_byte).collect();
        if n > 0 {
            let w = buf.write(&data, 0)?;
            assert_eq!(w, n);
        }
        self.pos += n;
        Ok(n)
    }
}

impl WriteVolatile for Scripted {
    fn write_volatile<B: BitmapSlice>(&mut self, buf: &VolatileSlice<B>) -> Result<usize, VErr> {
        let addr = buf.ptr_guard().as_ptr() as usize;
        let (_, r) = self.next(buf.len(), addr);
        let n = r?;
        let mut data = vec![0u8; n];
        if n > 0 {
            let k = buf.read(&mut data, 0)?;
            assert_eq!(k, n);
        }
        self.accepted.extend_from_slice(&data);
        self.pos += n;
        Ok(n)
    }
}


/// The crate's own in-memory adapters as stream endpoints: `&[u8]`, `Cursor<&[u8]>`, `Cursor<Vec<u8>>`
/// as readers; `&mut [u8]`, `Vec<u8>`, `Cursor<&mut [u8]>` as writers. Every method (including the
/// exact forms, which these adapters override) is forwarded to the adapter itself.
pub struct MemEp {
    pub kind: u8,
    data: Vec<u8>,
    rd: &'static [u8],
    cur: std::io::Cursor<&'static [u8]>,
    curv: std::io::Cursor<Vec<u8>>,
    sink: Vec<u8>,
    sink2: Vec<u8>,
    wr: &'static mut [u8],
    vec: Vec<u8>,
    curw: std::io::Cursor<&'static mut [u8]>,
    /// calls made with a non-empty buffer
    pub ncalls: usize,
    /// where the cursors started (may be past the end)
    start: usize,
}

impl MemEp {
    pub fn new(kind: u8, total: usize) -> Box<MemEp> {
        Self::new_at(kind, total, 0)
    }
    /// cursor kinds start at `start` (which may lie past the end of their data)
    pub fn new_at(kind: u8, total: usize, start: usize) -> Box<MemEp> {
        let data: Vec<u8> = (0..total).map(stream_byte).collect();
        let mut sink = vec![0u8; total];
        let mut sink2 = vec![0u8; total];
        // SAFETY: the slices point into heap buffers owned by the same box and never reallocated.
        let rd: &'static [u8] = unsafe { std::slice::from_raw_parts(data.as_ptr(), data.len()) };
        let wr: &'static mut [u8] = unsafe { std::slice::from_raw_parts_mut(sink.as_mut_ptr(), sink.len()) };
        let w2: &'static mut [u8] = unsafe { std::slice::from_raw_parts_mut(sink2.as_mut_ptr(), sink2.len()) };
        let me = Box::new(MemEp { kind: kind % 3, rd, cur: std::io::Cursor::new(rd), curv: std::io::Cursor::new(data.clone()), data, sink, sink2, wr, vec: Vec::new(), curw: std::io::Cursor::new(w2), ncalls: 0, start: 0 });
        let mut me = me;
        me.cur.set_position(start as u64);
        me.curv.set_position(start as u64);
        me.curw.set_position(start as u64);
        me.start = start;
        me
    }
    pub fn name(&self, read: bool) -> &'static str {
        match (read, self.kind) {
            (true, 0) => "&[u8]",
            (true, 1) => "Cursor<&[u8]>",
            (true, _) => "Cursor<Vec<u8>>",
            (false, 0) => "&mut [u8]",
            (false, 1) => "Vec<u8>",
            (false, _) => "Cursor<&mut [u8]>",
        }
    }
    /// bytes the reader no longer holds
    pub fn consumed(&self) -> usize {
        match self.kind {
            0 => self.data.len() - self.rd.len(),
            1 => (self.cur.position() as usize).min(self.data.len()) - self.start.min(self.data.len()),
            _ => (self.curv.position() as usize).min(self.data.len()) - self.start.min(self.data.len()),
        }
    }
    /// bytes the writer accepted, in order
    pub fn accepted(&self) -> Vec<u8> {
        match self.kind {
            0 => self.sink[..self.sink.len() - self.wr.len()].to_vec(),
            1 => self.vec.clone(),
            _ => self.sink2[self.start.min(self.sink2.len())..(self.curw.position() as usize).min(self.sink2.len())].to_vec(),
        }
    }
}

impl ReadVolatile for MemEp {
    fn read_volatile<B: BitmapSlice>(&mut self, buf: &mut VolatileSlice<B>) -> Result<usize, VErr> {
        self.ncalls += (buf.len() > 0) as usize;
        match self.kind {
            0 => self.rd.read_volatile(buf),
            1 => self.cur.read_volatile(buf),
            _ => self.curv.read_volatile(buf),
        }
    }
    fn read_exact_volatile<B: BitmapSlice>(&mut self, buf: &mut VolatileSlice<B>) -> Result<(), VErr> {
        self.ncalls += (buf.len() > 0) as usize;
        match self.kind {
            0 => self.rd.read_exact_volatile(buf),
            1 => self.cur.read_exact_volatile(buf),
            _ => self.curv.read_exact_volatile(buf),
        }
    }
}

impl WriteVolatile for MemEp {
    fn write_volatile<B: BitmapSlice>(&mut self, buf: &VolatileSlice<B>) -> Result<usize, VErr> {
        self.ncalls += (buf.len() > 0) as usize;
        match self.kind {
            0 => self.wr.write_volatile(buf),
            1 => self.vec.write_volatile(buf),
            _ => self.curw.write_volatile(buf),
        }
    }
    fn write_all_volatile<B: BitmapSlice>(&mut self, buf: &VolatileSlice<B>) -> Result<(), VErr> {
        self.ncalls += (buf.len() > 0) as usize;
        match self.kind {
            0 => self.wr.write_all_volatile(buf),
            1 => self.vec.write_all_volatile(buf),
            _ => self.curw.write_all_volatile(buf),
        }
    }
}

/// one of the three endpoint kinds; forwards all four methods unchanged
pub enum AnyEp<'a> {
    Scripted(&'a mut Scripted),
    Fd(&'a mut std::fs::File),
    Mem(&'a mut MemEp),
}

impl ReadVolatile for AnyEp<'_> {
    fn read_volatile<B: BitmapSlice>(&mut self, buf: &mut VolatileSlice<B>) -> Result<usize, VErr> {
        match self {
            AnyEp::Scripted(e) => e.read_volatile(buf),
            AnyEp::Fd(e) => e.read_volatile(buf),
            AnyEp::Mem(e) => e.read_volatile(buf),
        }
    }
    fn read_exact_volatile<B: BitmapSlice>(&mut self, buf: &mut VolatileSlice<B>) -> Result<(), VErr> {
        match self {
            AnyEp::Scripted(e) => e.read_exact_volatile(buf),
            AnyEp::Fd(e) => e.read_exact_volatile(buf),
            AnyEp::Mem(e) => e.read_exact_volatile(buf),
        }
    }
}

impl WriteVolatile for AnyEp<'_> {
    fn write_volatile<B: BitmapSlice>(&mut self, buf: &VolatileSlice<B>) -> Result<usize, VErr> {
        match self {
            AnyEp::Scripted(e) => e.write_volatile(buf),
            AnyEp::Fd(e) => e.write_volatile(buf),
            AnyEp::Mem(e) => e.write_volatile(buf),
        }
    }
    fn write_all_volatile<B: BitmapSlice>(&mut self, buf: &VolatileSlice<B>) -> Result<(), VErr> {
        match self {
            AnyEp::Scripted(e) => e.write_all_volatile(buf),
            AnyEp::Fd(e) => e.write_all_volatile(buf),
            AnyEp::Mem(e) => e.write_all_volatile(buf),
        }
    }
}

pub fn gen_script(max: u32) -> Vec<Beh> {
    let c = cx();
    let len = c.a(max + 1) as usize;
    // swarm: a random subset of fault kinds is enabled per run
    let mask = 1 + c.a(31);
    let mut s = Vec::new();
    for _ in 0..len {
        let k = c.a(10);
        let b = match k {
            0 | 1 if mask & 1 != 0 => Beh::Short(1 + c.a(40) as usize),
            2 if mask & 1 != 0 => Beh::Short(1 + c.a(5000) as usize),
            3 | 4 if mask & 2 != 0 => Beh::Intr,
            5 if mask & 4 != 0 => Beh::Zero,
            6 if mask & 8 != 0 => Beh::Hard([ErrorKind::Other, ErrorKind::WouldBlock, ErrorKind::BrokenPipe, ErrorKind::PermissionDenied][c.a(4) as usize]),
            7 if mask & 16 != 0 => {
                // a burst of interruptions, now and then a long one
                let n = if c.a(6) == 0 { 30 + c.a(40) } else { c.a(4) };
                for _ in 0..n {
                    s.push(Beh::Intr);
                }
                Beh::Intr
            }
            _ => Beh::Full,
        };
        s.push(b);
    }
    s
}

#[derive(Clone, Copy, Debug, PartialEq, Eq)]
enum Layer {
    Slice,
    Region,
    Gm,
}

#[derive(Clone, Copy, Debug, PartialEq, Eq)]
enum OpK {
    ReadFrom,
    ReadExactFrom,
    WriteTo,
    WriteAllTo,
    DirectReadExact,
    DirectWriteAll,
}

pub struct Stream;
pub static STREAM: Stream = Stream;

#[derive(Debug)]
enum Res {
    Count(usize),
    Unit,
    Err(String, bool /* interrupted */, bool /* partial-buffer / eof style */),
    Panic(String),
    Budget,
}

fn res_count<E: Debug>(r: OpOutcome<Result<usize, E>>) -> Res {
    match r {
        OpOutcome::Ok(Ok(n)) => Res::Count(n),
        OpOutcome::Ok(Err(e)) => {
            let s = format!("{:?}", e);
            Res::Err(s.clone(), s.contains("Interrupted"), false)
        }
        OpOutcome::Panic(m) => Res::Panic(m),
        OpOutcome::Sim(SimPanic::Budget) => Res::Budget,
        OpOutcome::Sim(s) => Res::Panic(format!("{:?}", s)),
    }
}
fn res_unit<E: Debug>(r: OpOutcome<Result<(), E>>) -> Res {
    match r {
        OpOutcome::Ok(Ok(())) => Res::Unit,
        OpOutcome::Ok(Err(e)) => {
            let s = format!("{:?}", e);
            Res::Err(s.clone(), s.contains("Interrupted"), false)
        }
        OpOutcome::Panic(m) => Res::Panic(m),
        OpOutcome::Sim(SimPanic::Budget) => Res::Budget,
        OpOutcome::Sim(s) => Res::Panic(format!("{:?}", s)),
    }
}

impl Scenario for Stream {
    fn name(&self) -> &'static str {
        "S-stream"
    }

    fn run(&self) -> RunInfo {
        cx().mode = Mode::Setup;
        let layer = [Layer::Slice, Layer::Region, Layer::Gm, Layer::Gm][cx().a(4) as usize];
        // ----- world ---------------------------------------------------------------------------
        let mut arena: Option<Arena> = None;
        let mut slice_ptr: *mut u8 = std::ptr::null_mut();
        let mut slice_len = 0usize;
        let mut slice_model: Vec<u8> = Vec::new();
        let mut gw: Option<GmWorld<()>> = None;
        match layer {
            Layer::Slice => {
                let a = Arena::get(4);
                slice_len = match cx().a(4) {
                    0 => 1 + cx().a(16) as usize,
                    1 => 4096,
                    _ => 1 + cx().a(8192) as usize,
                };
                slice_ptr = a.place(slice_len, cx().a(8) as usize, cx().a(2) == 0);
                cx().add_range(a.data() as usize, a.data_len(), 0, true);
                slice_model = (0..slice_len).map(|i| crate::gmworld::pat(77, i)).collect();
                raw_write(slice_ptr, &slice_model);
                arena = Some(a);
            }
            _ => {
                let c = cx();
                let n = if layer == Layer::Region { 1 } else { 2 + c.a(2) as usize };
                let sizes = [1usize, 7, 64, 100, 300, 4096, 4097, 5000];
                let mut regs = Vec::new();
                let mut cur = 0x2000u64;
                for _ in 0..n {
                    // rarely a region longer than 64 KiB, so that one piece of a transfer can be that long
                    let size = if c.a(60) == 0 {
                        c.count("probe.stream_world_with_a_region_longer_than_64_kib");
                        [66_000usize, 140_000][c.a(2) as usize]
                    } else {
                        c.pick(&sizes)
                    };
                    regs.push(RegSpec { base: cur, size, file_off: None });
                    cur += size as u64 + if c.a(4) == 0 { 1 + c.a(64) as u64 } else { 0 };
                }
                gw = Some(GmWorld::<()>::build(regs, 5));
            }
        }
        let nops = 1 + cx().a(3) as usize;
        let mut log: Vec<String> = Vec::new();
        let mut faults_seen = false;
        for step in 0..nops {
            if !cx().violations.is_empty() {
                break;
            }
            let opk = [OpK::ReadFrom, OpK::ReadExactFrom, OpK::WriteTo, OpK::WriteAllTo, OpK::DirectReadExact, OpK::DirectWriteAll][cx().a(6) as usize];
            let is_read = matches!(opk, OpK::ReadFrom | OpK::ReadExactFrom | OpK::DirectReadExact);
            let exact = !matches!(opk, OpK::ReadFrom | OpK::WriteTo);
            // ----- target range ----------------------------------------------------------------
            // (start address in the layer's terms, count)
            let mut room_direct = usize::MAX;
            let (start, count, room, valid_first): (u64, usize, usize, bool) = match layer {
                Layer::Slice => {
                    let addr = if cx().a(12) == 0 { slice_len + cx().a(3) as usize } else { cx().a(slice_len as u32) as usize };
                    let room = slice_len.saturating_sub(addr);
                    let count = gen_count(room);
                    (addr as u64, count, room, addr < slice_len)
                }
                Layer::Region => {
                    let w = gw.as_ref().unwrap();
                    let size = w.regs[0].size;
                    let addr = if cx().a(12) == 0 { size + cx().a(3) as usize } else { cx().a(size as u32) as usize };
                    let room = size.saturating_sub(addr);
                    (addr as u64, gen_count(room), room, addr < size)
                }
                Layer::Gm => {
                    let w = gw.as_ref().unwrap();
                    let addr = crate::gmworld::gen_gaddr(&w.regs);
                    let room = w.run(addr, 3 * 4096 + 64);
                    room_direct = w.find(addr).map(|(i, off)| w.regs[i].size - off).unwrap_or(0);
                    (addr, gen_count(room), room, room > 0)
                }
            };
            // endpoint: scripted stub, real descriptor under injected syscall results, or one of the
            // crate's own in-memory adapters (fault-free apart from running dry / filling up)
            let epk = cx().a(6);
            let use_mem = epk == 0;
            let script = if use_mem { Vec::new() } else { gen_script(8) };
            let stream_total = match cx().a(4) {
                0 => cx().a(count as u32 + 1) as usize, // the stream may end early
                _ => count + 64 + cx().a(64) as usize,
            };
            let call_cap = count + script.len() + 8;
            let mut ep = Scripted::new(script.clone(), stream_total, call_cap + 40);
            // the same script can instead be played by a real descriptor whose read(2)/write(2)
            // outcomes the syscall seam decides
            let use_fd = !use_mem && epk <= 2;
            // cursor adapters start at 0 or, now and then, at / past the end of their data
            let mem_start = if use_mem && cx().a(5) == 0 { stream_total + cx().a(4) as usize } else { 0 };
            let mem_kind = cx().a(3) as u8;
            // (only the cursor kinds have a position; the plain slice / vector kinds ignore it)
            let mem_start = if mem_kind % 3 == 0 || (mem_kind % 3 == 1 && !is_read) { 0 } else { mem_start };
            let mut memep = MemEp::new_at(mem_kind, stream_total, mem_start);
            let stream_total = if mem_start > 0 { 0 } else { stream_total };
            let is_read_op = matches!(opk, OpK::ReadFrom | OpK::ReadExactFrom | OpK::DirectReadExact);
            let mut fdfile = crate::gmworld::memfd(0);
            if use_fd {
                use std::os::fd::AsRawFd;
                if is_read_op {
                    let data: Vec<u8> = (0..stream_total).map(stream_byte).collect();
                    // SAFETY: our own descriptor and buffer.
                    unsafe {
                        libc::write(fdfile.as_raw_fd(), data.as_ptr() as *const libc::c_void, data.len());
                        libc::lseek(fdfile.as_raw_fd(), 0, libc::SEEK_SET);
                    }
                }
                cx().sys.io_script = script
                    .iter()
                    .map(|b| match b {
                        Beh::Full => crate::sys::IoVerdict::Pass,
                        Beh::Short(k) => crate::sys::IoVerdict::Shorten(1 + k % 48),
                        Beh::Zero => crate::sys::IoVerdict::Zero,
                        Beh::Intr => crate::sys::IoVerdict::Errno(libc::EINTR),
                        Beh::Hard(k) => crate::sys::IoVerdict::Errno(match k {
                            ErrorKind::WouldBlock => libc::EAGAIN,
                            ErrorKind::BrokenPipe => libc::EPIPE,
                            ErrorKind::PermissionDenied => libc::EACCES,
                            _ => libc::EIO,
                        }),
                    })
                    .collect();
                cx().sys.io_log.clear();
                cx().sys.io_call_cap = Some(call_cap + 40);
            }
            let before_all = self.snapshot(layer, slice_ptr, slice_len, gw.as_ref());
            cx().mode = Mode::Actor;
            cx().op_begin(step as u64);
            let res: Res = match layer {
                Layer::Slice => {
                    // SAFETY: arena memory outlives the run.
                    let vs = unsafe { VolatileSlice::new(slice_ptr, slice_len) };
                    let mut any = if use_mem { AnyEp::Mem(&mut memep) } else if use_fd { AnyEp::Fd(&mut fdfile) } else { AnyEp::Scripted(&mut ep) };
                    run_op(&vs, start as usize, opk, count, &mut any, |v, a, n| v.get_slice(a, n).map_err(|e| format!("{:?}", e)))
                }
                Layer::Region => {
                    let w = gw.as_ref().unwrap();
                    let r = w.gm.find_region(GuestAddress(w.regs[0].base)).unwrap();
                    let mut any = if use_mem { AnyEp::Mem(&mut memep) } else if use_fd { AnyEp::Fd(&mut fdfile) } else { AnyEp::Scripted(&mut ep) };
                    run_op(r, MemoryRegionAddress(start), opk, count, &mut any, |r, a, n| {
                        use vm_memory::GuestMemoryRegion;
                        r.get_slice(a, n).map_err(|e| format!("{:?}", e))
                    })
                }
                Layer::Gm => {
                    let w = gw.as_ref().unwrap();
                    let mut any = if use_mem { AnyEp::Mem(&mut memep) } else if use_fd { AnyEp::Fd(&mut fdfile) } else { AnyEp::Scripted(&mut ep) };
                    run_op(&w.gm, GuestAddress(start), opk, count, &mut any, |g, a, n| g.get_slice(a, n).map_err(|e| format!("{:?}", e)))
                }
            };
            cx().op_end(step as u64, 0);
            cx().mode = Mode::Setup;
            if use_fd {
                use std::os::fd::AsRawFd;
                cx().sys.io_script.clear();
                cx().sys.io_call_cap = None;
                let log = std::mem::take(&mut cx().sys.io_log);
                for c in &log {
                    let n = c.ret.max(0) as usize;
                    let beh = match c.verdict {
                        crate::sys::IoVerdict::Errno(libc::EINTR) => Beh::Intr,
                        crate::sys::IoVerdict::Errno(_) => Beh::Hard(ErrorKind::Other),
                        crate::sys::IoVerdict::Zero => Beh::Zero,
                        _ if c.ret < 0 => Beh::Hard(ErrorKind::Other),
                        _ if n == 0 => Beh::Zero,
                        _ if n < c.len => Beh::Short(c.len - n),
                        _ => Beh::Full,
                    };
                    match beh {
                        Beh::Short(_) => cx().count("fault.fd_short"),
                        Beh::Zero => cx().count("fault.fd_zero_or_eof"),
                        Beh::Intr => cx().count("fault.fd_eintr"),
                        Beh::Hard(_) => cx().count("fault.fd_hard_error"),
                        Beh::Full => {}
                    }
                    ep.calls.push(Call { buf_len: c.len, buf_addr: c.buf, beh, n });
                }
                let moved_fd: usize = ep.calls.iter().map(|c| c.n).sum();
                if !is_read_op {
                    let mut got = vec![0u8; moved_fd];
                    // SAFETY: pread into our own buffer.
                    let k = unsafe { libc::pread(fdfile.as_raw_fd(), got.as_mut_ptr() as *mut libc::c_void, moved_fd, 0) };
                    got.truncate(k.max(0) as usize);
                    ep.accepted = got;
                }
                cx().count("cell.endpoint_descriptor");
            } else if use_mem {
                // what left the reader / reached the writer is read off the adapter itself
                let moved_mem = if is_read_op { memep.consumed() } else { memep.accepted().len() };
                if moved_mem > 0 {
                    ep.calls.push(Call { buf_len: count, buf_addr: 0, beh: if moved_mem >= count { Beh::Full } else { Beh::Short(count - moved_mem) }, n: moved_mem });
                }
                if moved_mem < count && matches!(res, Res::Err(..)) && memep.ncalls > 0 {
                    // the adapter ran dry / filled up: a zero-byte answer
                    ep.calls.push(Call { buf_len: count - moved_mem, buf_addr: 0, beh: Beh::Zero, n: 0 });
                    cx().count("fault.memory_adapter_ran_dry_or_full");
                }
                if !is_read_op {
                    ep.accepted = memep.accepted();
                }
                cx().count("cell.endpoint_memory_adapter");
            } else {
                cx().count("cell.endpoint_scripted");
            }
            let desc = format!("{:?} {:?} {} start={:#x} count={} room={} stream_len={} script={:?} -> {:?} after {} endpoint call(s)", layer, opk, if use_mem { memep.name(is_read_op) } else if use_fd { "descriptor" } else { "scripted" }, start, count, room, stream_total, script, res, ep.calls.len());
            log.push(desc.clone());
            if script.iter().any(|b| *b != Beh::Full) || (use_mem && stream_total < count) {
                faults_seen = true;
            }
            // ----- oracle ------------------------------------------------------------------------
            let direct = matches!(opk, OpK::DirectReadExact | OpK::DirectWriteAll);
            let range_valid = if exact && (layer != Layer::Gm || direct) { valid_first && count <= room.min(room_direct) } else { valid_first };
            let moved: usize = ep.calls.iter().map(|c| c.n).sum();
            let fp = |what: &str| format!("{} {:?} {:?}", what, layer, opk);
            match &res {
                Res::Panic(m) => cx().violate("C14", "C14/panic", fp("panic"), format!("{}: panicked: {}", desc, m)),
                Res::Budget => cx().violate("C14", "C14/liveness", fp("no return"), format!("{}: did not return within {} endpoint calls (remaining bytes + script length + slack)", desc, call_cap + 40)),
                Res::Err(_, true, _) => cx().violate("C14", "C14/eintr-reported", fp("interruption reported"), format!("{}: an interruption was reported to the caller", desc)),
                _ => {}
            }
            if matches!(res, Res::Panic(_) | Res::Budget) {
                break;
            }
            // interruptions are retried: the transfer never ends on an interrupted call
            if let Some(last) = ep.calls.last() {
                if last.beh == Beh::Intr {
                    cx().violate("C14", "C14/eintr-not-retried", fp("transfer ended on EINTR"), format!("{}: the last endpoint call was interrupted and was not retried", desc));
                }
            }
            // a hard error ends the transfer
            if let Some(i) = ep.calls.iter().position(|c| matches!(c.beh, Beh::Hard(_))) {
                if i + 1 != ep.calls.len() {
                    cx().violate("C14", "C14/continued-after-error", fp("calls after a hard error"), format!("{}: {} endpoint call(s) followed a hard stream error", desc, ep.calls.len() - i - 1));
                }
                if !matches!(res, Res::Err(..)) {
                    cx().violate("C14", "C14/error-swallowed", fp("hard error not reported"), format!("{}: a hard stream error was not reported", desc));
                }
            }
            // errors do not come from nowhere
            if let Res::Err(e, _, _) = &res {
                // a zero-byte answer explains an error of the exact forms and of the write-out forms (a
                // sink that accepts nothing is WriteZero); an up-to read at end of stream reports what moved
                let cause = ep.calls.iter().any(|c| matches!(c.beh, Beh::Hard(_)) || ((exact || !is_read) && c.n == 0 && c.beh != Beh::Intr)) || !range_valid || (exact && moved < count);
                if !cause {
                    cx().violate("C14", "C14/spurious-error", fp("error without cause"), format!("{}: returned {} although every endpoint call made progress and the range is valid", desc, e));
                }
            }
            if !range_valid && ep.calls.iter().any(|c| c.buf_len > 0) && !(layer == Layer::Gm && valid_first && !direct) {
                cx().violate("C14", "C14/invalid-range", fp("stream used for an invalid range"), format!("{}: the range is invalid but the stream was called {} time(s)", desc, ep.calls.len()));
            }
            // return value vs bytes moved
            match &res {
                Res::Count(n) if *n != moved => cx().violate("C14", "C14/count", fp("count"), format!("{}: returned {} but {} byte(s) moved through the stream", desc, n, moved)),
                Res::Unit if moved != count => cx().violate("C14", "C14/exact", fp("exact success"), format!("{}: returned success but {} of {} byte(s) moved", desc, moved, count)),
                Res::Err(..) if exact && moved == count && count > 0 && range_valid => cx().violate("C14", "C14/exact", fp("exact failure"), format!("{}: returned an error although all {} byte(s) moved", desc, count)),
                _ => {}
            }
            if !exact && range_valid && moved > count.min(room) {
                cx().violate("C14", "C14/count", fp("moved more than requested"), format!("{}: {} byte(s) moved, more than min(count, room) = {}", desc, moved, count.min(room)));
            }
            // fault-free scripts transfer everything they can
            if script.iter().all(|b| *b == Beh::Full) && range_valid {
                let want = if exact && (layer != Layer::Gm || direct) { count } else { count.min(room).min(stream_total) };
                if stream_total >= count && moved != want.min(if is_read { stream_total } else { usize::MAX }) {
                    cx().violate("C14", "C14/fault-free", fp("fault-free transfer incomplete"), format!("{}: fault-free stream, expected {} byte(s) to move, {} moved", desc, want, moved));
                }
            }
            // liveness
            if ep.calls.len() > call_cap {
                cx().violate("C14", "C14/liveness", fp("too many endpoint calls"), format!("{}: {} endpoint calls for {} byte(s) and a script of {}", desc, ep.calls.len(), count, script.len()));
            }
            // conservation
            let after_all = self.snapshot(layer, slice_ptr, slice_len, gw.as_ref());
            if is_read {
                // guest bytes [start, start+moved) are the stream's first `moved` bytes; the rest is unchanged
                let mut expect = before_all.clone();
                let handed: Vec<u8> = (0..moved).map(stream_byte).collect();
                if !place(&mut expect, layer, start, &handed, gw.as_ref()) {
                    cx().violate("C14", "C14/conservation", fp("bytes stored outside the mapped run"), format!("{}: {} byte(s) were consumed but the mapped run holds fewer", desc, moved));
                } else if expect != after_all {
                    let (ri, bi) = first_diff(&expect, &after_all);
                    cx().violate("C14", "C14/conservation", fp("guest bytes differ from the stream prefix"), format!("{}: after consuming {} byte(s), region/container {} byte {} is {:#04x}, expected {:#04x} (a byte was dropped, stored twice, stored out of order, or a byte outside the prefix changed)", desc, moved, ri, bi, after_all[ri][bi], expect[ri][bi]));
                }
            } else {
                if before_all != after_all {
                    cx().violate("C14", "C14/conservation", fp("guest memory changed by a write-out"), format!("{}: guest memory changed", desc));
                }
                let want = read_model(&before_all, layer, start, ep.accepted.len(), gw.as_ref());
                match want {
                    Some(w) if w == ep.accepted => {}
                    _ => cx().violate("C14", "C14/conservation", fp("writer received wrong bytes"), format!("{}: the {} byte(s) the writer accepted are not the next guest bytes in order", desc, ep.accepted.len())),
                }
            }
            if let Layer::Slice = layer {
                slice_model = after_all[0].clone();
                if let Some(i) = arena.as_ref().unwrap().canaries_intact(slice_ptr, slice_len) {
                    cx().violate("C14", "C14/conservation", fp("byte outside the container written"), format!("{}: arena byte {} next to the container changed", desc, i));
                }
            }
            cx().count(match layer {
                Layer::Slice => "cell.layer_slice",
                Layer::Region => "cell.layer_region",
                Layer::Gm => "cell.layer_guest_memory",
            });
            if layer == Layer::Gm && moved > 0 {
                let w = gw.as_ref().unwrap();
                if let (Some((a, _)), Some((b, _))) = (w.find(start), w.find(start + moved as u64 - 1)) {
                    if a != b {
                        cx().count("probe.transfer_crossed_a_region_boundary");
                    }
                }
                if room < count {
                    cx().count("probe.target_range_ends_in_a_hole");
                }
            }
        }
        let _ = slice_model;
        let desc = if cx().trace { Some(J::obj().set("layer", J::s(format!("{:?}", layer))).set("layout", J::strs(gw.as_ref().map(|w| w.describe()).unwrap_or_else(|| vec![format!("slice of {} bytes", slice_len)]))).set("transfers", J::strs(log.clone()))) } else { None };
        cx().mode = Mode::Setup;
        cx().clear_ranges();
        if let Some(w) = gw {
            w.teardown();
        }
        if let Some(a) = arena {
            a.release();
        }
        cx().mode = Mode::Oracle;
        RunInfo { nontrivial: faults_seen, desc, cell: None }
    }
}

fn gen_count(room: usize) -> usize {
    let c = cx();
    (match c.a(8) {
        0 => 1,
        1 => room,
        2 => room + 1 + c.a(9) as usize,
        3 => room.saturating_sub(1),
        4 => 1 + c.a(16) as usize,
        _ => 1 + c.a(if room > 20_000 { room + 8 } else { (room + 8).min(3 * 4096) } as u32) as usize,
    })
    // (counts beyond 12 KiB only where the room itself is far beyond it: the long regions)
    .clamp(1, if room > 20_000 { room + 10 } else { 3 * 4096 })
}

fn first_diff(a: &[Vec<u8>], b: &[Vec<u8>]) -> (usize, usize) {
    for (i, (x, y)) in a.iter().zip(b.iter()).enumerate() {
        if let Some(k) = x.iter().zip(y.iter()).position(|(p, q)| p != q) {
            return (i, k);
        }
    }
    (0, 0)
}

/// store `data` at `start` in the snapshot, following the flat sparse layout
fn place(snap: &mut [Vec<u8>], layer: Layer, start: u64, data: &[u8], gw: Option<&GmWorld<()>>) -> bool {
    if data.is_empty() {
        return true;
    }
    match layer {
        Layer::Slice | Layer::Region => {
            let s = start as usize;
            if s + data.len() > snap[0].len() {
                return false;
            }
            snap[0][s..s + data.len()].copy_from_slice(data);
            true
        }
        Layer::Gm => {
            let w = gw.unwrap();
            for (k, &b) in data.iter().enumerate() {
                match w.find(start.wrapping_add(k as u64)) {
                    Some((i, off)) => snap[i][off] = b,
                    None => return false,
                }
            }
            true
        }
    }
}

fn read_model(snap: &[Vec<u8>], layer: Layer, start: u64, n: usize, gw: Option<&GmWorld<()>>) -> Option<Vec<u8>> {
    if n == 0 {
        return Some(Vec::new());
    }
    match layer {
        Layer::Slice | Layer::Region => {
            let s = start as usize;
            snap[0].get(s..s + n).map(|x| x.to_vec())
        }
        Layer::Gm => {
            let w = gw.unwrap();
            (0..n).map(|k| w.find(start.wrapping_add(k as u64)).map(|(i, off)| snap[i][off])).collect()
        }
    }
}

impl Stream {
    fn snapshot(&self, layer: Layer, p: *mut u8, len: usize, gw: Option<&GmWorld<()>>) -> Vec<Vec<u8>> {
        match layer {
            Layer::Slice => vec![raw_read(p, len)],
            _ => {
                let w = gw.unwrap();
                w.regs.iter().enumerate().map(|(i, r)| raw_read(w.ptrs[i], r.size)).collect()
            }
        }
    }
}

fn run_op<A: Copy, T: Bytes<A>, EP: ReadVolatile + WriteVolatile>(t: &T, at: A, opk: OpK, count: usize, ep: &mut EP, get_slice: impl Fn(&T, A, usize) -> Result<VolatileSlice<'_, ()>, String>) -> Res
where
    T::E: Debug,
{
    match opk {
        OpK::ReadFrom => res_count(catch(|| t.read_volatile_from(at, ep, count))),
        OpK::ReadExactFrom => res_unit(catch(|| t.read_exact_volatile_from(at, ep, count))),
        OpK::WriteTo => res_count(catch(|| t.write_volatile_to(at, ep, count))),
        OpK::WriteAllTo => res_unit(catch(|| t.write_all_volatile_to(at, ep, count))),
        OpK::DirectReadExact => match get_slice(t, at, count) {
            Ok(mut s) => res_unit(catch(|| ep.read_exact_volatile(&mut s))),
            Err(e) => Res::Err(e, false, false),
        },
        OpK::DirectWriteAll => match get_slice(t, at, count) {
            Ok(s) => res_unit(catch(|| ep.write_all_volatile(&s))),
            Err(e) => Res::Err(e, false, false),
        },
    }
}
