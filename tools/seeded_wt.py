#!/usr/bin/env python3
"""Development aid: run the quick checks against seeded changes without touching /repo, so that
other work on /verif and /repo can go on meanwhile. A snapshot of /verif is pointed at a scratch
worktree of /repo (HEAD plus uncommitted nothing), each patch is applied there, the snapshot's
check of the targeted property runs, the patch is reverted; worktree and snapshot are removed at
the end. The results that are recorded in seeded/*/meta.json and DESIGN.md come from
tools/seeded_all.py, which applies each change to /repo itself.
usage: tools/seeded_wt.py [--tag T] <seeded dir>[:prop[,prop]] ..."""
import json, os, re, shutil, subprocess, sys, time
ROOT = os.path.dirname(os.path.dirname(os.path.abspath(__file__)))
args = sys.argv[1:]
tag = str(os.getpid())
record = False
while args and args[0].startswith("--"):
    if args[0] == "--tag":
        tag = args[1]; args = args[2:]
    elif args[0] == "--record":
        # write the outcome into seeded/<id>/meta.json (key "check_result"), with the notes of
        # tools/seeded_notes.json and the extra checks listed there
        record = True; args = args[1:]
    else:
        break
NOTES = json.load(open(os.path.join(ROOT, "tools", "seeded_notes.json")))
snap = f"/tmp/vsnap-{tag}"
wt = f"/tmp/rwt-{tag}"
def sh(cmd, **kw):
    return subprocess.run(cmd, shell=True, capture_output=True, text=True, **kw)
shutil.rmtree(snap, ignore_errors=True)
sh(f"git -C /repo worktree remove --force {wt}; git -C /repo worktree prune")
os.makedirs(snap)
sh(f"rsync -a --exclude /.git --exclude /replays --exclude /out --exclude /seeded --exclude /mutants --exclude /evidence {ROOT}/ {snap}/")
r = sh(f"git -C /repo worktree add --detach {wt} HEAD")
assert r.returncode == 0, r.stderr
ct = open(f"{snap}/sim/Cargo.toml").read().replace('path = "/repo"', f'path = "{wt}"')
open(f"{snap}/sim/Cargo.toml", "w").write(ct)
os.makedirs(f"{snap}/evidence", exist_ok=True)
try:
    for a in args:
        d, _, ps = a.partition(":")
        d = os.path.abspath(d)
        meta = json.load(open(os.path.join(d, "meta.json")))
        props = ps.split(",") if ps else [meta["property"]] + (NOTES.get(os.path.basename(d), {}).get("also", []) if record else [])
        results = {}
        r = sh(f"git -C {wt} apply {d}/patch.diff")
        if r.returncode != 0:
            print(os.path.basename(d), "PATCH DOES NOT APPLY", r.stderr[:200]); continue
        for p in props:
            t0 = time.time()
            env = dict(os.environ, VERIF_MAX_S="120", VMSIM_HANG_S="60", VERIF_SHRINK_S="3")
            try:
                r = subprocess.run([f"{snap}/check", p, "quick"], capture_output=True, text=True, env=env, timeout=1500)
                classes = sorted(set(re.findall(r"^\s+(C\d+/\S+)", r.stderr, re.M)))
                first = (r.stderr.strip().splitlines() or [""])[0][:300]
                rc = r.returncode
            except subprocess.TimeoutExpired:
                rc, classes, first = -1, ["timeout"], "timeout"
            if rc == 1 and not classes:
                classes = [p + "/crash"]
            results[p] = {"exit": rc, "classes": classes, "wall_s": round(time.time() - t0, 1), "violation_lines": len([l for l in r.stdout.splitlines() if l.startswith("VIOLATION")]) if rc != -1 else 0}
            print(os.path.basename(d), p, json.dumps({"exit": rc, "classes": classes, "wall_s": round(time.time() - t0, 1), "first": first}), flush=True)
        if record and meta["property"] in results:
            own = results[meta["property"]]
            prev = meta.get("check_result", {})
            meta["check_result"] = {"check": meta["property"], "tier": "quick", "exit": own["exit"], "violation_lines": own["violation_lines"], "violation_classes": own["classes"], "wall_s": own["wall_s"], "note": NOTES.get(os.path.basename(d), {}).get("note", prev.get("note", "")),
                                    "how": "patch applied to a scratch worktree of /repo at the same commit; ./check run from a copy of /verif whose Cargo path points at that worktree (tools/seeded_wt.py --record)"}
            oth = {k: {"exit": v["exit"], "violation_classes": v["classes"]} for k, v in results.items() if k != meta["property"]}
            if oth:
                meta["check_result"]["other_checks"] = oth
            json.dump(meta, open(os.path.join(d, "meta.json"), "w"), indent=1)
        sh(f"git -C {wt} checkout -- . && git -C {wt} clean -fdq")
finally:
    sh(f"git -C /repo worktree remove --force {wt}; git -C /repo worktree prune")
    shutil.rmtree(snap, ignore_errors=True)
