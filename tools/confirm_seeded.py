#!/usr/bin/env python3
"""Confirm an independently seeded change in its scratch worktree and, if it holds up, keep it under
/verif/seeded/<prop>-<i>/ (patch.diff, demo.rs, README.md, meta.json).
usage: tools/confirm_seeded.py <prop> <i> [--features F] [--demo-cmd 'cargo test ...'] [--demo-dest path]"""
import json, os, shutil, subprocess, sys, time
ROOT = os.path.dirname(os.path.dirname(os.path.abspath(__file__)))
prop, idx = sys.argv[1], sys.argv[2]
args = sys.argv[3:]
feat = "backend-mmap,backend-atomic,backend-bitmap"
demo_dest = "tests/demo.rs"
demo_cmd = None
wt_override = None
keep_as = None
i = 0
while i < len(args):
    if args[i] == "--features": feat = args[i+1]; i += 2
    elif args[i] == "--demo-cmd": demo_cmd = args[i+1]; i += 2
    elif args[i] == "--demo-dest": demo_dest = args[i+1]; i += 2
    elif args[i] == "--wt": wt_override = args[i+1]; i += 2
    elif args[i] == "--as": keep_as = args[i+1]; i += 2
    else: i += 1
wt = wt_override or f"/tmp/wt-{prop}"
src = f"{wt}/SEEDED/{idx}"
env = dict(os.environ, CARGO_NET_OFFLINE="true")
def run(cmd, **kw):
    return subprocess.run(cmd, shell=True, cwd=wt, env=env, capture_output=True, text=True, **kw)
def clean():
    run("git checkout -- . && git clean -fdq -e SEEDED -e PROPERTY.txt -e target")
clean()
patch = open(f"{src}/patch.diff").read()
xen = "xen.rs" in patch
if xen and "xen" not in feat:
    feat += ",xen"
if demo_cmd is None:
    demo_cmd = f"cargo test --offline --features {feat} --test demo"
res = {}
def demo():
    os.makedirs(os.path.dirname(f"{wt}/{demo_dest}") or wt, exist_ok=True)
    shutil.copy(f"{src}/demo.rs", f"{wt}/{demo_dest}")
    r = run(demo_cmd + " 2>&1 | tail -25")
    out = r.stdout
    ok = ("test result: ok" in out) and ("FAILED" not in out) and ("error:" not in out) and ("error[" not in out)
    os.remove(f"{wt}/{demo_dest}") if demo_dest.startswith("tests/") or demo_dest.startswith("examples/") else None
    return ok, out[-1500:]
t0 = time.time()
res["demo_without_change"], out0 = demo()
clean()
r = run(f"git apply SEEDED/{idx}/patch.diff")
res["patch_applies"] = r.returncode == 0
r1 = run("cargo test --offline 2>&1 | grep -E '^test result|FAILED|^error' | head")
res["existing_tests_default_features"] = r1.stdout.strip().splitlines()
r2 = run(f"cargo test --offline --features {feat} 2>&1 | grep -E '^test result|FAILED|^error' | head")
res["existing_tests_with_features"] = r2.stdout.strip().splitlines()
tests_ok = all("ok." in l for l in res["existing_tests_default_features"] + res["existing_tests_with_features"]) and res["existing_tests_default_features"] and res["existing_tests_with_features"]
ok1, out1 = demo()
res["demo_with_change"] = ok1
clean()
res["confirmed"] = bool(res["demo_without_change"] and res["patch_applies"] and tests_ok and not ok1)
res["wall_s"] = round(time.time() - t0)
print(json.dumps(res, indent=1))
if not res["confirmed"]:
    print("---- demo without change:\n", out0[-800:], "\n---- demo with change:\n", out1[-800:])
    sys.exit(1)
dst = f"{ROOT}/seeded/{prop}-{keep_as or idx}"
os.makedirs(dst, exist_ok=True)
for f in ["patch.diff", "demo.rs", "README.md", "run_demo.sh", "run.sh"]:
    if os.path.exists(f"{src}/{f}"):
        shutil.copy(f"{src}/{f}", f"{dst}/{f}")
meta = {"property": prop, "source": "independent sub-agent given only the property text and a scratch worktree", "features": feat, "demo": {"file": demo_dest, "command": demo_cmd}, "confirmation": res,
        "needs": open(f"{src}/README.md").read()[:1500]}
json.dump(meta, open(f"{dst}/meta.json", "w"), indent=1)
print("kept as", dst)
